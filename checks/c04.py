"""C04 -- event, frame and note metrics equal their published definitions."""
import itertools
import math
from fractions import Fraction as F

import numpy as np
from hypothesis import strategies as st

from gens import base as g
from gens import pitch as gp
from gens import segments as gs
from gens import tasks as gt
from oracles import beat as ob
from oracles import melody as omel
from oracles import misc as om
from oracles import pattern as op
from vlib.runner import SubProp, Violation

from mir_eval import alignment, beat, key, melody, onset, pattern, segment, tempo, transcription, transcription_velocity

from checks import c18 as _c18

PROPERTY_ID = "C04"
SCALE = (2, 1)   # budget multiplier (quick, thorough) applied to the n=(...) of every generated sub-property
LEVEL = "exploration"
RULE = ("inputs on exact-arithmetic lattices (times k/64 or k/16 s, pitches on a cent lattice that keeps >= 0.5 cent from every "
        "tolerance) with estimates mostly derived from the reference so that hits exist, non-default parameters drawn per call; key pairs "
        "and tempo hit configurations exhaustively; non-trivial = both sides non-empty with at least one hit and one miss (score strictly "
        "between 0 and 1) or an element exactly on a lattice threshold; distinct by SHA-1 (enumerated cases by construction)")
ASSUMPTIONS = [
    "reference models under /verif/oracles (beat, melody, pattern, misc, multipitch) are transcriptions of the cited definitions; conventions "
    "taken from the code because the documentation is silent are listed in DESIGN.md (C04)",
    "agreement to 1e-9; cases within rounding distance of a threshold (P-score window product at .5, histogram bin edges, pitch distance within 1e-6 cent, "
    "nearest-interpolation ties) are counted and not asserted",
    "pattern occurrence scores: where set- and multiset-index semantics differ the case is counted as definition-ambiguous and skipped",
    "AOR must equal the mean overlap ratio of SOME maximum matching (all maximum matchings enumerated by brute force)",
]
TOL = 1e-9


def _a(x):
    return np.asarray(x, dtype=float)


def _cmp(name, got, want, case, tol=TOL):
    if want is None:
        return
    if isinstance(want, float) and math.isnan(want):
        if not (isinstance(got, float) or isinstance(got, np.floating)) or not math.isnan(got):
            raise Violation("%s = %r, definition gives NaN; case %r" % (name, got, case))
        return
    try:
        ok = abs(float(got) - float(want)) <= tol
    except TypeError:
        ok = False
    if not ok:
        raise Violation("%s = %r, definition gives %r; case %r" % (name, got, want, case))


def _between(*vals):
    return any(0 < float(v) < 1 for v in vals if v is not None and not (isinstance(v, float) and math.isnan(v)))


# ================================================================== beat

@st.composite
def beat_case(draw):
    c = draw(gt.beat_pair())
    c.update({"f_measure_threshold": draw(st.sampled_from([0.07, 0.0625, 0.125, 0.03125])),
              "cemgil_sigma": draw(st.sampled_from([0.04, 0.1, 0.02])),
              "p_score_threshold": draw(st.sampled_from([0.2, 0.5, 0.1])),
              "goto_threshold": draw(st.sampled_from([0.35, 0.25, 0.5])), "goto_mu": draw(st.sampled_from([0.2, 0.1, 0.3])),
              "goto_sigma": draw(st.sampled_from([0.2, 0.1, 0.3])),
              "continuity_phase_threshold": draw(st.sampled_from([0.175, 0.125, 0.25])),
              "continuity_period_threshold": draw(st.sampled_from([0.175, 0.125, 0.25])),
              "bins": draw(st.sampled_from([41, 21, 10, 40]))})
    return c


def pred_beat_basic(case, ctx):
    ref, est = case["ref"], case["est"]
    r, e = _a(ref), _a(est)
    thr = case["f_measure_threshold"]
    f = ctx.call(beat.f_measure, r, e, f_measure_threshold=thr)
    _cmp("beat.f_measure", f, ob.f_measure(ref, est, thr), case)
    sg = case["cemgil_sigma"]
    c = ctx.call(beat.cemgil, r, e, cemgil_sigma=sg)
    o = ob.cemgil(ref, est, sg)
    _cmp("beat.cemgil", c[0], o[0], case)
    _cmp("beat.cemgil (best metric level)", c[1], o[1], case)
    pt = case["p_score_threshold"]
    want = ob.p_score(ref, est, pt)
    if want is None:
        ctx.skip("p_score: single 10 ms bin or window product within 1e-9 of a half")
        p = None
    else:
        p = ctx.call(beat.p_score, r, e, p_score_threshold=pt)
        _cmp("beat.p_score", p, want, case)
    on_edge = any(abs(F(a) - F(b)) == F(thr) for a in ref for b in est)
    if on_edge:
        ctx.event("beat_exactly_on_f_measure_threshold")
    return bool(ref and est) and (_between(f, c[0], p) or on_edge)


def pred_beat_goto_continuity(case, ctx):
    ref, est = case["ref"], case["est"]
    r, e = _a(ref), _a(est)
    gk = dict(goto_threshold=case["goto_threshold"], goto_mu=case["goto_mu"], goto_sigma=case["goto_sigma"])
    gv = ctx.call(beat.goto, r, e, **gk)
    want_g = ob.goto(ref, est, case["goto_threshold"], case["goto_mu"], case["goto_sigma"])
    if want_g is None:
        ctx.skip("goto: a beat error, the track mean or its std within 1e-9 of its threshold")
    _cmp("beat.goto", gv, want_g, case)
    if gv not in (0, 1, 0.0, 1.0):
        raise Violation("beat.goto returned %r (binary score)" % (gv,))
    ck = dict(continuity_phase_threshold=case["continuity_phase_threshold"], continuity_period_threshold=case["continuity_period_threshold"])
    cv = ctx.call(beat.continuity, r, e, **ck)
    oc = ob.continuity(ref, est, case["continuity_phase_threshold"], case["continuity_period_threshold"])
    for nm, a, b in zip(["CMLc", "CMLt", "AMLc", "AMLt"], cv, oc):
        _cmp("beat.continuity " + nm, a, b, case)
    ctx.event("goto=%d" % int(gv))
    return bool(ref and est) and (gv == 1 or _between(*cv))


def _info_gain(case, ctx, name):
    ref, est, bins = case["ref"], case["est"], case["bins"]
    got = ctx.call(beat.information_gain, _a(ref), _a(est), bins=bins)
    try:
        spec = ob.info_gain(ref, est, bins, "toolbox")
        dev = ob.info_gain(ref, est, bins, "code")
    except ob.EdgeAdjacent:
        ctx.skip("beat error within 1e-9 of a histogram bin edge")
        return None
    if abs(got - spec) <= TOL:
        return got
    if abs(got - dev) <= TOL and ob.kf06_possible(ref, est):
        ctx.known("c04.information_gain:first_interval_wrap", "got %r, toolbox semantics %r" % (got, spec))
        return got
    raise Violation("%s: information_gain = %r, definition gives %r (known deviation KF-06 would give %r); case %r" % (name, got, spec, dev, case))


def pred_info_gain(case, ctx):
    if len(case["ref"]) < 2 or len(case["est"]) < 2:
        _cmp("beat.information_gain", ctx.call(beat.information_gain, _a(case["ref"]), _a(case["est"]), bins=case["bins"]), 0.0, case)
        return False
    v = _info_gain(case, ctx, "beat.information_gain")
    return v is not None and 0 < v < 1


@st.composite
def shared_first_beat_case(draw):
    """Both sequences start with the same beat: no beat can precede the other sequence's first annotation while
    being nearest to it, so the known deviation KF-06 cannot occur and the rest of the function is under a clean oracle."""
    c = draw(beat_case())
    ref, est = c["ref"], c["est"]
    if len(ref) < 2:
        ref = [5.0, 5.5, 6.0, 6.5]
    t0 = ref[0]
    est = sorted(set([t0] + [x for x in est if x > t0]))
    if len(est) < 2:
        est = [t0, t0 + 0.75, t0 + 1.25]
    c["ref"], c["est"] = ref, est
    return c


def pred_info_gain_clean(case, ctx):
    ref, est = case["ref"], case["est"]
    if ob.kf06_possible(ref, est):
        raise RuntimeError("generator failed to exclude KF-06")
    got = ctx.call(beat.information_gain, _a(ref), _a(est), bins=case["bins"])
    try:
        spec = ob.info_gain(ref, est, case["bins"], "toolbox")
    except ob.EdgeAdjacent:
        ctx.skip("beat error within 1e-9 of a histogram bin edge")
        return False
    _cmp("beat.information_gain", got, spec, case)
    return 0 < got < 1


# ================================================================== onset / boundaries

@st.composite
def onset_case(draw):
    ref, est = draw(g.event_pair(q=16, hi=10.0, max_n=10))
    return {"ref": ref, "est": est, "window": draw(st.sampled_from([0.05, 0.0625, 0.125, 0.25, 0.5, 0.0]))}


def pred_onset(case, ctx):
    ref, est, w = case["ref"], case["est"], case["window"]
    f, p, r = ctx.call(onset.f_measure, _a(ref), _a(est), window=w)
    P, R, Fm = om.prf_events(ref, est, w)
    _cmp("onset precision", p, P, case)
    _cmp("onset recall", r, R, case)
    _cmp("onset F", f, Fm, case)
    edge = any(abs(F(a) - F(b)) == F(w) for a in ref for b in est)
    return bool(ref and est) and (_between(p, r) or edge)


@st.composite
def boundary_case(draw):
    T = draw(st.integers(2, 40)) / 2
    a = draw(gs.partition(T, q=8))
    how = draw(st.sampled_from(["indep", "jitter", "jitter", "same"]))
    if how == "indep":
        b = draw(gs.partition(T, q=8))
    elif how == "same":
        b = [list(r) for r in a]
    else:
        cuts = sorted({min(T - 0.125, max(0.125, r[0] + draw(st.integers(-5, 5)) / 8)) for r in a[1:] if draw(st.integers(0, 5))})
        bs = [0.0] + [c for c in cuts if 0 < c < T] + [T]
        b = [[bs[i], bs[i + 1]] for i in range(len(bs) - 1)]
    return {"ref_iv": a, "est_iv": b, "window": draw(st.sampled_from([0.5, 3.0, 0.25, 0.125, 1.0])), "beta": draw(st.sampled_from([1.0, 0.5, 2.0])),
            "trim": draw(st.booleans())}


def pred_boundary(case, ctx):
    a, b = _a(case["ref_iv"]).reshape(-1, 2), _a(case["est_iv"]).reshape(-1, 2)
    w, beta, trim = case["window"], case["beta"], case["trim"]
    rb, eb = om.boundaries(case["ref_iv"], trim), om.boundaries(case["est_iv"], trim)
    p, r, f = ctx.call(segment.detection, a, b, window=w, beta=beta, trim=trim)
    P, R, Fm = om.prf_events(rb, eb, w, beta)
    _cmp("segment.detection precision", p, P, case)
    _cmp("segment.detection recall", r, R, case)
    _cmp("segment.detection F", f, Fm, case)
    r2e, e2r = ctx.call(segment.deviation, a, b, trim=trim)
    o = om.deviation(rb, eb)
    _cmp("segment.deviation ref-to-est", float(r2e), o[0], case)
    _cmp("segment.deviation est-to-ref", float(e2r), o[1], case)
    if trim:
        ctx.event("trim")
    if not rb or not eb:
        ctx.event("no_boundaries_after_trimming")
    return bool(rb and eb) and _between(p, r)


# ================================================================== melody

def pred_melody(case, ctx):
    kw = dict(case["kw"])
    tol = kw.pop("cent_tolerance", 50)
    npkw = {k: (_a(v) if isinstance(v, list) else v) for k, v in kw.items()}
    rt, rf, et, ef = case["ref_time"], case["ref_freq"], case["est_time"], case["est_freq"]
    got = ctx.call(melody.to_cent_voicing, _a(rt), _a(rf), _a(et), _a(ef), **npkw)
    try:
        exp = omel.to_cent_voicing(rt, rf, et, ef, ev=kw.get("est_voicing"), rr=kw.get("ref_reward"), hop=kw.get("hop"), kind=kw.get("kind", "linear"))
    except omel.NearestTie:
        ctx.skip("nearest interpolation exactly midway between two samples")
        return False
    for name, a, b in zip(["ref_voicing", "ref_cent", "est_voicing", "est_cent"], got, exp):
        a = np.asarray(a, dtype=float)
        if len(a) != len(b) or not np.allclose(a, b, rtol=0, atol=1e-7):
            raise Violation("to_cent_voicing %s = %r, definition gives %r; case %r" % (name, a.tolist(), b, case))
    ms, adjacent = omel.measures(*exp, tol=tol)
    if adjacent:
        ctx.skip("cent difference within 1e-6 of the tolerance")
        return False
    ekw = dict(npkw)
    if "cent_tolerance" in case["kw"]:
        ekw["cent_tolerance"] = tol
    sc = ctx.call(melody.evaluate, _a(rt), _a(rf), _a(et), _a(ef), **ekw)
    names = ["Voicing Recall", "Voicing False Alarm", "Raw Pitch Accuracy", "Raw Chroma Accuracy", "Overall Accuracy"]
    for k, x in zip(names, ms):
        _cmp("melody " + k, sc[k], x, case)
    # the individual measure functions on the arrays
    rv, rc, ev, ec = [np.asarray(x, dtype=float) for x in got]
    _cmp("voicing_recall", ctx.call(melody.voicing_recall, rv, ev), ms[0], case)
    _cmp("voicing_false_alarm", ctx.call(melody.voicing_false_alarm, rv, ev), ms[1], case)
    _cmp("raw_pitch_accuracy", ctx.call(melody.raw_pitch_accuracy, rv, rc, ev, ec, cent_tolerance=tol), ms[2], case)
    _cmp("raw_chroma_accuracy", ctx.call(melody.raw_chroma_accuracy, rv, rc, ev, ec, cent_tolerance=tol), ms[3], case)
    _cmp("overall_accuracy", ctx.call(melody.overall_accuracy, rv, rc, ev, ec, cent_tolerance=tol), ms[4], case)
    for k in ("kind", "hop", "est_voicing", "ref_reward"):
        if k in kw:
            ctx.event("param:" + k + ("=" + kw[k] if k == "kind" else ""))
    return _between(ms[2], ms[4], ms[0])


# ================================================================== transcription

def pred_transcription(case, ctx):
    from checks.c05 import note_feasibility, _arrs
    ref, est = case["ref"], case["est"]
    nr, ne = len(ref), len(est)
    ri, rp, rv = _arrs(ref)
    ei, ep, ev = _arrs(est)
    beta = case["beta"]
    kw = dict(onset_tolerance=case["onset_tolerance"], pitch_tolerance=case["pitch_tolerance"], offset_ratio=case["offset_ratio"],
              offset_min_tolerance=case["offset_min_tolerance"], strict=case["strict"])
    feas, adjacent = note_feasibility(ref, est, case)
    if adjacent:
        ctx.skip("pitch distance within 1e-6 cent of tolerance")
        return False
    out = ctx.call(transcription.precision_recall_f1_overlap, ri, rp, ei, ep, beta=beta, **kw)
    if nr == 0 or ne == 0:
        for v in out:
            _cmp("transcription (empty side)", v, 0.0, case)
        return False
    best, matchings = om.all_max_matchings(feas, nr, ne)
    P, R = best / ne, best / nr
    _cmp("transcription precision", out[0], P, case)
    _cmp("transcription recall", out[1], R, case)
    _cmp("transcription F", out[2], om.fbeta(P, R, beta), case)
    aors = {(sum(om.overlap_ratio(ref[i], est[j]) for i, j in m) / len(m)) if m else 0.0 for m in matchings}
    if not any(abs(float(out[3]) - a) <= TOL for a in aors):
        raise Violation("Average_Overlap_Ratio = %r is not the mean overlap ratio of any maximum matching %r; case %r" % (out[3], sorted(aors), case))
    if out[3] > 1 + TOL:
        raise Violation("Average_Overlap_Ratio %r > 1" % out[3])
    # onset-only and offset-only
    fo, _ = note_feasibility(ref, est, case, use_pitch=False, use_offset=False)
    bo, _m = om.all_max_matchings(fo, nr, ne)
    o = ctx.call(transcription.onset_precision_recall_f1, ri, ei, onset_tolerance=kw["onset_tolerance"], strict=kw["strict"], beta=beta)
    _cmp("onset_precision", o[0], bo / ne, case)
    _cmp("onset_recall", o[1], bo / nr, case)
    _cmp("onset_F", o[2], om.fbeta(bo / ne, bo / nr, beta), case)
    if case["offset_ratio"] is not None:
        ff, _ = note_feasibility(ref, est, case, use_pitch=False, use_onset=False)
        bf, _m = om.all_max_matchings(ff, nr, ne)
        o = ctx.call(transcription.offset_precision_recall_f1, ri, ei, offset_ratio=kw["offset_ratio"], offset_min_tolerance=kw["offset_min_tolerance"],
                     strict=kw["strict"], beta=beta)
        _cmp("offset_precision", o[0], bf / ne, case)
        _cmp("offset_recall", o[1], bf / nr, case)
    # velocity: the regression/filter step applied to the matching the plain matcher returns
    base = ctx.call(transcription.match_notes, ri, rp, ei, ep, **kw)
    vt = case["velocity_tolerance"]
    gotv = ctx.call(transcription_velocity.match_notes, ri, rp, rv, ei, ep, ev, velocity_tolerance=vt, **kw)
    if base:
        lo, hi = min(n[3] for n in ref), max(n[3] for n in ref)
        rng = max(1, hi - lo)
        y = [(ref[i][3] - lo) / rng for i, _ in base]
        x = [float(est[j][3]) for _, j in base]
        n = len(x)
        sx, sy = sum(x), sum(y)
        sxx, sxy = sum(a * a for a in x), sum(a * b for a, b in zip(x, y))
        den = n * sxx - sx * sx
        if den > 1e-9:
            slope = (n * sxy - sx * sy) / den
            icpt = (sy - slope * sx) / n
            diffs = [abs(slope * a + icpt - b) for a, b in zip(x, y)]
            if any(abs(d - vt) < 1e-9 for d in diffs):
                ctx.skip("velocity error within 1e-9 of tolerance")
            else:
                want = [(int(i), int(j)) for (i, j), d in zip(base, diffs) if d < vt]
                if [(int(i), int(j)) for i, j in gotv] != want:
                    raise Violation("transcription_velocity.match_notes = %r, least-squares rescaling + tolerance %r keeps %r; case %r" % (gotv, vt, want, case))
                pv = ctx.call(transcription_velocity.precision_recall_f1_overlap, ri, rp, rv, ei, ep, ev, velocity_tolerance=vt, beta=beta, **kw)
                _cmp("velocity precision", pv[0], len(want) / ne, case)
                _cmp("velocity recall", pv[1], len(want) / nr, case)
                ctx.event("velocity_checked")
        else:
            ctx.skip("velocity regression degenerate (all matched estimated velocities equal)")
    if len(matchings) > 1:
        ctx.event("several_maximum_matchings")
    return _between(out[0], out[1])


# ================================================================== tempo / key / alignment

def pred_tempo(case, ctx):
    ref, w, est, tol = case["ref"], case["weight"], case["est"], case["tol"]
    p, one, both = ctx.call(tempo.detection, _a(ref), w, _a(est), tol=tol)
    P, O, B = om.tempo_detection(ref, w, est, tol)
    _cmp("tempo P-score", p, P, case)
    if bool(one) != O or bool(both) != B:
        raise Violation("tempo one/both-correct = %r/%r, definition gives %r/%r; case %r" % (one, both, O, B, case))
    if one not in (0, 1, True, False) or both not in (0, 1, True, False):
        raise Violation("tempo hit flags not binary: %r %r" % (one, both))
    edge = any(r > 0 and min(abs(F(r) - F(e)) / F(r) for e in est) == F(tol) for r in ref)
    if edge:
        ctx.event("relative_error_exactly_tol")
    return (O and not B) or edge


def enum_tempo(tier, shard, nshards):
    """All hit configurations: each reference tempo is hit / missed / zero, x weights x which estimate hits."""
    k = 0
    for r0, r1 in [(60.0, 120.0), (0.0, 120.0), (60.0, 0.0), (100.0, 100.0)]:
        for e0, e1 in itertools.product([60.0, 120.0, 100.0, 61.875, 123.75, 64.8, 64.0, 0.0, 300.0], repeat=2):
            for w in (0.0, 0.25, 0.5, 1.0):
                for tol in (0.08, 0.03125, 0.0, 1.0):
                    k += 1
                    if k % nshards == shard:
                        yield {"ref": [r0, r1], "weight": w, "est": [e0, e1], "tol": tol}


TONICS = ["c", "c#", "db", "d", "d#", "eb", "e", "f", "f#", "gb", "g", "g#", "ab", "a", "a#", "bb", "b"]


def all_keys():
    ks = ["X", "x"]
    for t in TONICS:
        for m in ("major", "minor", "other"):
            ks.append("%s %s" % (t, m))
            ks.append("%s %s" % (t.capitalize(), m))
    return ks


def enum_keys(tier, shard, nshards):
    ks = all_keys()
    for i, r in enumerate(ks):
        if i % nshards == shard:
            yield {"ref": r}


def pred_key(case, ctx):
    r = case["ref"]
    nt = False
    for e in all_keys():
        got = ctx.call(key.weighted_score, r, e)
        want = om.key_score(r, e)
        if got != want:
            raise Violation("key.weighted_score(%r, %r) = %r, relationship table gives %r" % (r, e, got, want))
        ev = ctx.call(key.evaluate, r, e)["Weighted Score"]
        if ev != want:
            raise Violation("key.evaluate(%r, %r) = %r, table gives %r" % (r, e, ev, want))
        nt = nt or 0 < want < 1
        ctx.events["pairs"] += 1
    return nt


def pred_alignment(case, ctx):
    ref, est, w, dur = case["ref"], case["est"], case["window"], case["duration"]
    r, e = _a(ref), _a(est)
    med, mean, pc, pcs = om.alignment(ref, est, w, dur)
    mae, aae = ctx.call(alignment.absolute_error, r, e)
    _cmp("alignment median absolute error", mae, med, case)
    _cmp("alignment average absolute error", aae, mean, case)
    _cmp("alignment percentage_correct", ctx.call(alignment.percentage_correct, r, e, window=w), pc, case)
    if pcs is None:
        ctx.event("pcs_undefined(all reference timestamps identical, no duration)")
    else:
        _cmp("alignment percentage_correct_segments", ctx.call(alignment.percentage_correct_segments, r, e, duration=dur), pcs, case)
    edge = any(abs(F(a) - F(b)) == F(w) for a, b in zip(ref, est))
    if edge:
        ctx.event("deviation_exactly_window")
    return _between(pc, pcs) or edge


# ================================================================== pattern

def pred_pattern(case, ctx):
    R, E = case["ref"], case["est"]
    Rt = [[[tuple(nt) for nt in o] for o in P] for P in R]
    Et = [[[tuple(nt) for nt in o] for o in P] for P in E]

    def cmp3(name, got, want):
        for nm, a, b in zip("FPR", got, want):
            _cmp("%s %s" % (name, nm), a, b, case, 1e-12)
    e = ctx.call(pattern.establishment_FPR, Rt, Et)
    cmp3("establishment", e, op.establishment(R, E))
    t = ctx.call(pattern.three_layer_FPR, Rt, Et)
    cmp3("three_layer", t, op.three_layer(R, E))
    s = ctx.call(pattern.standard_FPR, Rt, Et)
    cmp3("standard", s, op.standard(R, E))
    for c in (0.5, case["thres"]):
        got = ctx.call(pattern.occurrence_FPR, Rt, Et, thres=c)
        m = op.occurrence(R, E, c, True)
        sset = op.occurrence(R, E, c, False)
        if not np.allclose(m, sset, rtol=0, atol=1e-12):
            ctx.skip("occurrence: set vs multiset index semantics differ (definition-ambiguous)")
        else:
            cmp3("occurrence(thres=%r)" % c, got, m)
    n = case["n"]
    _cmp("first_n_three_layer_P", ctx.call(pattern.first_n_three_layer_P, Rt, Et, n=n), op.three_layer(R, E[:n])[1], case, 1e-12)
    _cmp("first_n_target_proportion_R", ctx.call(pattern.first_n_target_proportion_R, Rt, Et, n=n), op.establishment(R, E[:n])[2], case, 1e-12)
    return _between(e[0], t[0], s[0])


# ================================================================== multipitch (same model as C18)

def pred_multipitch(case, ctx):
    return _c18.pred_metrics(case, ctx)

# ================================================================== perturbed repository fixtures (realistic decimals, margin rule)

_FIX = {}


def _fixture(kind, i):
    import os
    from vlib.runner import REPO
    key_ = (kind, i)
    if key_ not in _FIX:
        d = os.path.join(REPO, "tests", "data", kind)
        out = []
        for side in ("ref", "est"):
            with open(os.path.join(d, "%s%02d.txt" % (side, i))) as f:
                out.append([float(l.split()[0]) for l in f if l.strip() and not l.startswith("#")])
        _FIX[key_] = out
    return _FIX[key_]


@st.composite
def fixture_case(draw, kind="beat"):
    i = draw(st.integers(0, 9 if kind == "beat" else 9))
    start = draw(st.integers(0, 1000))      # position of the window inside the file, in 1/1000 of its usable span
    length = draw(st.sampled_from([6.0, 10.0, 15.0, 25.0]))
    c = draw(beat_case())
    c.update({"kind": kind, "fixture": i, "start": start, "length": length,
              "jitter_ms": [draw(st.integers(-40, 40)) for _ in range(60)], "drop": [draw(st.integers(0, 9)) == 0 for _ in range(60)],
              "defaults": draw(st.booleans())})
    c.pop("ref")
    c.pop("est")
    return c


def _margin(ref, est, thr, eps=1e-7):
    return any(abs(abs(a - b) - thr) < eps for a in ref for b in est)


def pred_beat_fixture(case, ctx):
    ref_all, est_all = _fixture(case["kind"], case["fixture"])
    t_first = 5.0 if case["kind"] == "beat" else 0.0
    span = max(0.0, max(ref_all[-1], est_all[-1]) - case["length"] - t_first)
    lo = round(t_first + span * case["start"] / 1000.0, 2)
    hi = lo + case["length"]
    ref = [x for x in ref_all if lo <= x <= hi]
    est0 = [x for x in est_all if lo <= x <= hi]
    est = sorted(x + j / 1000.0 for x, j, d in zip(est0, case["jitter_ms"], case["drop"]) if not d)
    if len(ref) < 2 or len(est) < 2 or len(set(ref)) < len(ref) or len(set(est)) < len(est):
        ctx.skip("window holds fewer than 2 beats")
        return False
    if case["defaults"]:
        case = dict(case, f_measure_threshold=0.07, cemgil_sigma=0.04, p_score_threshold=0.2, goto_threshold=0.35, goto_mu=0.2, goto_sigma=0.2,
                    continuity_phase_threshold=0.175, continuity_period_threshold=0.175, bins=41)
    r, e = _a(ref), _a(est)
    thr = case["f_measure_threshold"]
    nt = False
    if case["kind"] == "onset":
        if _margin(ref, est, 0.05):
            ctx.skip("onset distance within 1e-7 of the window")
            return False
        f, p, rr = ctx.call(onset.f_measure, r, e, window=0.05)
        P, R, Fm = om.prf_events(ref, est, 0.05)
        _cmp("onset precision (fixture window)", p, P, {"fixture": case["fixture"], "start": lo})
        _cmp("onset recall (fixture window)", rr, R, {"fixture": case["fixture"], "start": lo})
        return 0 < P < 1 or 0 < R < 1
    if not _margin(ref, est, thr):
        f = ctx.call(beat.f_measure, r, e, f_measure_threshold=thr)
        _cmp("beat.f_measure (fixture window)", f, ob.f_measure(ref, est, thr), case)
        nt |= 0 < f < 1
    else:
        ctx.skip("beat distance within 1e-7 of the F-measure threshold")
    c = ctx.call(beat.cemgil, r, e, cemgil_sigma=case["cemgil_sigma"])
    o = ob.cemgil(ref, est, case["cemgil_sigma"])
    _cmp("beat.cemgil (fixture window)", c[0], o[0], case)
    _cmp("beat.cemgil best (fixture window)", c[1], o[1], case)
    off = min(min(ref), min(est))
    if any(0 < abs((x - off) * 100 - round((x - off) * 100)) < 1e-6 for x in ref + est):
        ctx.skip("beat within 1e-8 s of a 10 ms quantisation edge")
    else:
        want = ob.p_score(ref, est, case["p_score_threshold"])
        if want is not None:
            _cmp("beat.p_score (fixture window)", ctx.call(beat.p_score, r, e, p_score_threshold=case["p_score_threshold"]), want, case)
    gv = ctx.call(beat.goto, r, e, goto_threshold=case["goto_threshold"], goto_mu=case["goto_mu"], goto_sigma=case["goto_sigma"])
    _cmp("beat.goto (fixture window)", gv, ob.goto(ref, est, case["goto_threshold"], case["goto_mu"], case["goto_sigma"]), case)
    cv = ctx.call(beat.continuity, r, e, continuity_phase_threshold=case["continuity_phase_threshold"], continuity_period_threshold=case["continuity_period_threshold"])
    oc = ob.continuity(ref, est, case["continuity_phase_threshold"], case["continuity_period_threshold"])
    for nm, a, b in zip(["CMLc", "CMLt", "AMLc", "AMLt"], cv, oc):
        _cmp("beat.continuity %s (fixture window)" % nm, a, b, case)
    v = _info_gain(dict(case, ref=ref, est=est), ctx, "beat.information_gain (fixture window)")
    return nt or _between(c[0], *cv) or (v is not None and 0 < v < 1)


# ------------------------------------------------------------------ the definitions do not depend on the array dtype

@st.composite
def int_case(draw):
    return {"task": draw(st.sampled_from(["beat", "onset", "alignment", "segment", "chord", "hierarchy", "melody", "melody_hop", "multipitch", "transcription",
                                         "transcription_velocity", "tempo"])),
            "seed": draw(st.integers(0, 10 ** 6)), "dtype": draw(st.sampled_from(["int64", "int32", "int16", "float32"])), "n": draw(st.integers(3, 12))}


def pred_int_typed(case, ctx):
    """Whole-second / whole-Hz annotations held in integer (or float32) arrays: every score must equal the score of the same numbers in
    float64, whose agreement with the definitions is what the other sub-properties establish."""
    import mir_eval
    rs = np.random.RandomState(case["seed"])
    n, task, dt = case["n"], case["task"], np.dtype(case["dtype"])
    lab = lambda pool, k: (pool * k)[:k]
    r = np.sort(rs.randint(5, 60, n))
    e = np.sort(np.clip(r + rs.randint(-1, 2, n), 5, 100))
    b = np.r_[0, np.cumsum(rs.randint(1, 6, n))]
    b2 = np.unique(np.r_[0, b[-1], rs.randint(1, b[-1], max(1, n // 2))])
    iv, iv2 = np.c_[b[:-1], b[1:]], np.c_[b2[:-1], b2[1:]]
    f = rs.choice([0, 110, 220, 440, 440, 330], n)
    f2 = f * rs.choice([1, 1, 2], n)
    f2 = np.where((f == 440) & (rs.rand(n) < 0.5), 453, f2)     # 50.4 cents: a miss that a whole-cent truncation turns into a hit
    on = np.sort(rs.randint(0, 30, n))
    ivn = np.c_[on, on + rs.randint(1, 4, n)]
    p = rs.choice([110, 220, 440, 453], n)
    fr = [rs.choice([110, 220, 330, 440], rs.randint(0, 3), replace=False) for _ in range(n)]
    calls = {
        "beat": (mir_eval.beat.evaluate, [r, e], {}),
        "onset": (mir_eval.onset.evaluate, [r, e], {}),
        "alignment": (mir_eval.alignment.evaluate, [np.unique(r), np.unique(r) + rs.randint(0, 2, len(np.unique(r)))], {}),
        "segment": (lambda a, c, **k: mir_eval.segment.evaluate(a, lab(["a", "b"], len(a)), c, lab(["a", "b", "c"], len(c)), **k), [iv, iv2], {"frame_size": 1}),
        "chord": (lambda a, c: mir_eval.chord.evaluate(a, lab(["C", "G:7", "N"], len(a)), c, lab(["C", "A:min"], len(c))), [iv, iv2], {}),
        "hierarchy": (lambda a, c, **k: mir_eval.hierarchy.evaluate([np.array([[a[0, 0], a[-1, 1]]], dtype=a.dtype), a], [["x"], lab(["a", "b"], len(a))], [c],
                                                                   [lab(["a", "b", "c"], len(c))], **k), [iv, iv2], {"frame_size": 1}),
        "melody": (mir_eval.melody.evaluate, [np.arange(n), f, np.arange(n), f2], {}),
        "melody_hop": (mir_eval.melody.evaluate, [np.arange(n) * 2, f, np.arange(n) * 3, f2], {"hop": 1}),
        "multipitch": (mir_eval.multipitch.evaluate, [np.arange(n), fr, np.arange(n) * 2, [x[::-1] for x in fr]], {}),
        "transcription": (mir_eval.transcription.evaluate, [ivn, p, ivn + rs.randint(0, 2, (n, 1)), p], {}),
        "transcription_velocity": (mir_eval.transcription_velocity.evaluate, [ivn, p, rs.randint(1, 127, n), ivn, p, rs.randint(1, 127, n)], {}),
        "tempo": (lambda a, c: mir_eval.tempo.evaluate(a, 0.5, c), [np.array([60, 120]), np.array([61, 118])], {}),
    }
    fn, args, kw = calls[task]

    def conv(x, t):
        if isinstance(x, np.ndarray):
            return x.astype(t)
        if isinstance(x, list):
            return [conv(y, t) for y in x]
        return x
    got = ctx.call(fn, *[conv(x, dt) for x in args], **kw)
    want = ctx.call(fn, *[conv(x, np.float64) for x in args], **kw)
    for k in want:
        a, w = float(got[k]), float(want[k])
        if not (a == w or (a != a and w != w) or (dt == np.dtype("float32") and abs(a - w) <= 1e-6)):
            raise Violation("%s.evaluate[%r] = %r for %s arrays but %r for the same numbers in float64; case %r" % (task, k, a, dt, w, case))
    ctx.event("dtype:" + str(dt))
    return dt.kind in "iu"


SUBPROPS = [
    SubProp("beat_f_cemgil_pscore", pred_beat_basic, strategy=beat_case, n=(1200, 30000), shards=(2, 8), floor=0.3,
            rule="NT = both sides non-empty and a score strictly between 0 and 1 or a beat exactly on the threshold"),
    SubProp("beat_goto_continuity", pred_beat_goto_continuity, strategy=beat_case, n=(1200, 30000), shards=(2, 8), floor=0.15,
            rule="NT = Goto = 1 or a continuity score strictly between 0 and 1"),
    SubProp("beat_information_gain", pred_info_gain, strategy=beat_case, n=(1200, 30000), shards=(2, 8), floor=0.3,
            rule="NT = 0 < information gain < 1; deviations matching the known finding KF-06 exactly are attributed to it, anything else is a violation"),
    SubProp("beat_information_gain_shared_first_beat", pred_info_gain_clean, strategy=shared_first_beat_case, n=(1200, 30000), shards=(2, 8), floor=0.3,
            rule="both sequences start on the same beat so KF-06 cannot occur: clean oracle for the rest of the function"),
    SubProp("beat_fixture_windows", pred_beat_fixture, strategy=lambda: fixture_case("beat"), n=(300, 6000), shards=(4, 8), floor=0.2,
            rule="windows of 6-25 s cut from the repository's 10 beat fixture pairs, estimates jittered by +-40 ms and thinned; realistic decimals with the margin rule; NT = a score strictly between 0 and 1"),
    SubProp("onset_fixture_windows", pred_beat_fixture, strategy=lambda: fixture_case("onset"), n=(200, 4000), shards=(2, 4), floor=0.1,
            rule="same for the onset fixtures (window 0.05)"),
    SubProp("onset_f_measure", pred_onset, strategy=onset_case, n=(1200, 30000), shards=(1, 4), floor=0.3,
            rule="NT = 0 < P or R < 1, or an onset exactly on the window"),
    SubProp("boundary_detection_deviation", pred_boundary, strategy=boundary_case, n=(1200, 30000), shards=(2, 8), floor=0.2,
            rule="NT = both sides have boundaries (after trimming) and 0 < P or R < 1"),
    SubProp("melody", pred_melody, strategy=gt.melody_case, n=(1500, 40000), shards=(4, 8), floor=0.3,
            rule="NT = a melody score strictly between 0 and 1"),
    SubProp("multipitch", pred_multipitch, strategy=gp.multipitch_pair, n=(600, 10000), shards=(1, 4), floor=0.3,
            rule="as C18 (same reference model)"),
    SubProp("transcription", pred_transcription, strategy=gt.notes_case, n=(1500, 40000), shards=(4, 8), floor=0.2,
            rule="NT = 0 < precision or recall < 1"),
    SubProp("tempo_generated", pred_tempo, strategy=gt.tempo_case, n=(800, 20000), shards=(1, 4), floor=0.1,
            rule="NT = exactly one tempo correct or a relative error exactly equal to tol"),
    SubProp("tempo_hit_configurations", pred_tempo, enum=enum_tempo, shards=(2, 4), exhaustive=True,
            rule="enumerated hit/miss/zero configurations x weights x tolerances"),
    SubProp("key_table_exhaustive", pred_key, enum=enum_keys, shards=(4, 4), exhaustive=True,
            rule="every valid reference key string against every valid estimated key string (104 x 104); pair count in classes"),
    SubProp("alignment", pred_alignment, strategy=gt.alignment_case, n=(1200, 30000), shards=(1, 4), floor=0.3,
            rule="NT = 0 < pc or pcs < 1 or a deviation exactly equal to the window"),
    SubProp("pattern", pred_pattern, strategy=gt.pattern_case, n=(1000, 25000), shards=(4, 8), floor=0.3,
            rule="NT = an establishment/three-layer/standard F strictly between 0 and 1"),
    SubProp("integer_typed_inputs", pred_int_typed, strategy=int_case, n=(400, 6000), shards=(2, 8), floor=0.4,
            rule="whole-second / whole-Hz annotations of 12 task shapes in int64 / int32 / int16 / float32 arrays (signed only: unsigned arithmetic wraps by NumPy's own rules and is not a documented input) against the same numbers in float64; NT = an integer dtype"),
]
