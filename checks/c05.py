"""C05 -- hit counts come from a valid, maximum one-to-one matching."""
import itertools
import math
from fractions import Fraction as F

import numpy as np
from hypothesis import strategies as st

from gens import base as g
from oracles import matching as om
from vlib.runner import SubProp, Violation

import mir_eval
from mir_eval import multipitch, transcription, transcription_velocity, util

PROPERTY_ID = "C05"
SCALE = (2, 1)   # budget multiplier (quick, thorough) applied to the n=(...) of every generated sub-property
LEVEL = "exploration"
EXHAUSTIVE = False  # the small-graph part is exhaustive; the event/note parts are sampled
RULE = ("exhaustive part: every bipartite graph up to the tier's size bound (quick: |U|,|V|<=4; thorough: adds 4x5, 5x4, 5x5 "
        "and all insertion orders), non-trivial = first-fit greedy in insertion order is strictly sub-optimal; generated part: "
        "random graphs with planted alternating chains, event/chroma/note sets on exact lattices with ties and duplicates, "
        "non-trivial = greedy sub-optimal or some pair exactly on the tolerance or a tie/duplicate present; distinct by SHA-1 of the case")
ASSUMPTIONS = [
    "oracle matchers (Kuhn augmenting paths; Hall/Koenig deficiency formula) in /verif/oracles/matching.py are correct; they are cross-checked against each other on every exhaustive graph",
    "times on dyadic lattices so |r-e| <= w is decided exactly by Fractions; pitch distances kept >= 0.5 cent from the tolerance",
    "CPython/NumPy float semantics",
]


# ------------------------------------------------------------------ helpers

def _check_matching(pairs_v_to_u, adj_u, what):
    """pairs: dict V->U as returned by _bipartite_match; adj_u: dict U -> collection of V."""
    us = list(pairs_v_to_u.values())
    if len(set(us)) != len(us):
        raise Violation("%s: a left vertex is used twice: %r" % (what, pairs_v_to_u))
    for v, u in pairs_v_to_u.items():
        if u not in adj_u or v not in adj_u[u]:
            raise Violation("%s: pair (%r,%r) is not an edge" % (what, u, v))


def _pairs_valid(matching, n_ref, n_est, feasible, what):
    """matching: list of (ref_i, est_j)."""
    rs = [int(a) for a, _ in matching]
    es = [int(b) for _, b in matching]
    if len(set(rs)) != len(rs) or len(set(es)) != len(es):
        raise Violation("%s: an item is matched more than once: %r" % (what, matching))
    for r, e in zip(rs, es):
        if not (0 <= r < n_ref and 0 <= e < n_est):
            raise Violation("%s: index out of range in %r" % (what, matching))
        if not feasible[r][e]:
            raise Violation("%s: pair (ref %d, est %d) violates the tolerance predicate" % (what, r, e))


def _max_size(feasible, n_ref, n_est):
    adj = [[j for j in range(n_est) if feasible[i][j]] for i in range(n_ref)]
    return om.kuhn(adj, n_ref), adj


# ------------------------------------------------------ 1. exhaustive graphs

def _sizes(tier):
    small = [(a, b) for a in range(1, 5) for b in range(1, 5)]
    if tier == "quick":
        return small
    return small + [(1, 5), (5, 1), (2, 5), (5, 2), (3, 5), (5, 3), (4, 5), (5, 4), (5, 5)]


def enum_graphs(tier, shard, nshards):
    for nu, nv in _sizes(tier):
        mask = (1 << nv) - 1
        orders = [0, 1]
        if tier == "thorough" and nu <= 4 and nv <= 4:
            orders = list(range(2 * math.factorial(nu)))
        for gi in range(shard, 1 << (nu * nv), nshards):
            rows = [(gi >> (i * nv)) & mask for i in range(nu)]
            for o in orders:
                yield (nu, nv, rows, o)


_PERMS = {n: list(itertools.permutations(range(n))) for n in range(1, 6)}


def pred_graph(case, ctx):
    nu, nv, rows, o = case
    perm = _PERMS[nu][o // 2] if o >= 2 else (tuple(range(nu)) if o == 0 else tuple(reversed(range(nu))))
    desc = (o % 2 == 1)
    graph = {}
    for u in perm:
        vs = [v for v in range(nv) if rows[u] >> v & 1]
        if desc:
            vs.reverse()
        if vs or (u + o) % 2 == 0:  # isolated left vertices present or absent: both are legal inputs
            graph[u] = vs
    m = ctx.call(util._bipartite_match, graph)
    _check_matching(m, graph, "_bipartite_match")
    want = om.hall_size(rows)
    if len(m) != want:
        raise Violation("_bipartite_match returned %d pairs, maximum is %d for graph %r" % (len(m), want, graph))
    k = om.kuhn([[v for v in range(nv) if rows[u] >> v & 1] for u in range(nu)], nu)
    if k != want:
        raise RuntimeError("oracles disagree (kuhn %d, hall %d) on %r" % (k, want, rows))
    return om.greedy_size(list(graph), graph) < want


# -------------------------------------------------------- 2. random graphs

@st.composite
def random_graph(draw):
    nu = draw(st.integers(1, 12))
    nv = draw(st.integers(1, 12))
    kind = draw(st.sampled_from(["sparse", "dense", "chain", "chain", "crown", "mixed"]))
    edges = []  # ordered: adjacency lists follow this order unless shuffled
    if kind in ("chain", "mixed"):
        # u_i -- v_i, v_{i+1} (i < L) and a last vertex u_L -- v_0: first-fit greedy takes v_i for u_i and
        # blocks u_L; repairing it needs an alternating path through all 2L+1 edges
        L = draw(st.integers(1, max(1, min(nu - 1, nv - 1)))) if min(nu, nv) > 1 else 0
        for i in range(L):
            edges.append((i, i))
            edges.append((i, i + 1))
        if L:
            edges.append((L, 0))
    if kind == "crown":
        k = min(nu, nv)
        for i in range(k):
            for j in range(k):
                if i != j:
                    edges.append((i, j))
    if kind in ("sparse", "mixed", "crown"):
        ne = draw(st.integers(0, 2 * max(nu, nv)))
        for _ in range(ne):
            edges.append((draw(st.integers(0, nu - 1)), draw(st.integers(0, nv - 1))))
    if kind == "dense":
        for u in range(nu):
            for v in range(nv):
                if draw(st.integers(0, 3)) > 0:
                    edges.append((u, v))
    edges = list(dict.fromkeys(edges))
    order = draw(st.sampled_from(["natural", "natural", "reversed", "permuted"]))
    uperm = list(range(nu)) if order == "natural" else list(reversed(range(nu))) if order == "reversed" else list(draw(st.permutations(list(range(nu)))))
    adj_seed = draw(st.one_of(st.none(), st.integers(0, 10 ** 6)))
    relabel_v = draw(st.sampled_from(["int", "shift", "str"]))
    return {"nu": nu, "nv": nv, "edges": [list(e) for e in edges], "uperm": uperm, "adj_seed": adj_seed, "vlabel": relabel_v}


def pred_random_graph(case, ctx):
    nu, nv = case["nu"], case["nv"]
    vl = {"int": (lambda v: v), "shift": (lambda v: v + 100), "str": (lambda v: "v%d" % v)}[case["vlabel"]]
    adj = {u: [] for u in range(nu)}
    for u, v in case["edges"]:
        adj[u].append(v)
    graph = {}
    for u in case["uperm"]:
        vs = list(adj[u])
        if case["adj_seed"] is not None:
            np.random.RandomState(case["adj_seed"] + u).shuffle(vs)  # data, not control: a pure function of the drawn integer
        if vs:
            graph[u] = [vl(v) for v in vs]
    m = ctx.call(util._bipartite_match, graph)
    _check_matching(m, graph, "_bipartite_match")
    want = om.kuhn([adj[u] for u in range(nu)], nu)
    if len(m) != want:
        raise Violation("_bipartite_match returned %d pairs, maximum is %d" % (len(m), want))
    ctx.event("max=%d" % min(want, 6))
    sub = om.greedy_size(list(graph), graph) < want
    ctx.event("greedy_suboptimal" if sub else "greedy_optimal")
    return sub


# ------------------------------------------------------------ 3. match_events

WINDOWS = [0.0, 1 / 16, 1 / 8, 0.25, 0.5, 1.0, 3.0, 0.05, 0.07]


@st.composite
def events_case(draw):
    ref, est = draw(g.event_pair(q=16, hi=8.0, max_n=10))
    return {"ref": ref, "est": est, "window": draw(st.sampled_from(WINDOWS)),
            "rperm": draw(st.permutations(list(range(len(ref))))), "eperm": draw(st.permutations(list(range(len(est))))),
            "shuffle_first": draw(st.booleans())}


def _events_core(case, ctx, distance, feas_fn, what):
    ref, est, w = case["ref"], case["est"], case["window"]
    if case["shuffle_first"]:
        ref = [ref[i] for i in case["rperm"]]
        est = [est[i] for i in case["eperm"]]
    nr, ne = len(ref), len(est)
    feasible = [[feas_fn(r, e, w) for e in est] for r in ref]
    want, adj = _max_size(feasible, nr, ne)
    a, b = np.asarray(ref, dtype=float), np.asarray(est, dtype=float)
    kw = {} if distance is None else {"distance": distance}
    m = ctx.call(util.match_events, a, b, w, **kw)
    _pairs_valid(m, nr, ne, feasible, what)
    if len(m) != want:
        raise Violation("%s: %d pairs returned, a matching of size %d exists (ref=%r est=%r window=%r)" % (what, len(m), want, ref, est, w))
    # order independence of the size
    ref2 = [ref[i] for i in case["rperm"]]
    est2 = [est[i] for i in case["eperm"]]
    m2 = ctx.call(util.match_events, np.asarray(ref2, dtype=float), np.asarray(est2, dtype=float), w, **kw)
    if len(m2) != len(m):
        raise Violation("%s: size %d changes to %d when the items are permuted" % (what, len(m), len(m2)))
    _pairs_valid(m2, nr, ne, [[feas_fn(r, e, w) for e in est2] for r in ref2], what + " (items supplied in a different order)")
    on_edge = any(F(abs(F(r) - F(e))) == F(w) for r in ref for e in est) if distance is None else False
    ties = len(set(ref)) < nr or len(set(est)) < ne
    greedy = om.greedy_size(range(nr), adj) < want
    for lab, c in (("on_window_edge", on_edge), ("duplicates", ties), ("greedy_suboptimal", greedy), ("empty_side", nr == 0 or ne == 0)):
        if c:
            ctx.event(lab)
    return (on_edge or ties or greedy) and nr > 0 and ne > 0


def pred_match_events(case, ctx):
    nt = _events_core(case, ctx, None, lambda r, e, w: abs(F(r) - F(e)) <= F(w), "match_events")
    # _fast_hit_windows == the O(nm) definition
    ref, est, w = case["ref"], case["est"], case["window"]
    hr, he = ctx.call(util._fast_hit_windows, np.asarray(ref, dtype=float), np.asarray(est, dtype=float), w)
    got = sorted((int(i), int(j)) for i, j in zip(hr, he))
    want = sorted((i, j) for i, r in enumerate(ref) for j, e in enumerate(est) if abs(F(r) - F(e)) <= F(w))
    if got != want:
        raise Violation("_fast_hit_windows pairs %r differ from {(i,j): |ref_i-est_j| <= %r} = %r" % (got, w, want))
    if len(got) != len(set(got)):
        raise Violation("_fast_hit_windows lists a pair twice")
    return nt


@st.composite
def chroma_case(draw):
    vals = st.integers(0, 127 * 8).map(lambda k: k / 8)
    near = st.sampled_from([0.0, 0.25, 0.5, 11.5, 11.75, 12.0, 12.25, 23.5, 24.0, 60.0, 71.75, 72.0])
    v = st.one_of(vals, near)
    ref = draw(st.lists(v, max_size=6))
    est = draw(st.lists(v, max_size=6))
    return {"ref": ref, "est": est, "window": draw(st.sampled_from([0.0, 0.125, 0.25, 0.5, 1.0])),
            "rperm": draw(st.permutations(list(range(len(ref))))), "eperm": draw(st.permutations(list(range(len(est))))),
            "shuffle_first": False}


def _circ(r, e, w):
    d = abs(F(r) % 12 - F(e) % 12)
    return min(d, 12 - d) <= F(w)


def pred_match_chroma(case, ctx):
    nt = _events_core(case, ctx, util._outer_distance_mod_n, _circ, "match_events(chroma)")
    wrap = any(abs(F(r) % 12 - F(e) % 12) > 6 and _circ(r, e, case["window"]) for r in case["ref"] for e in case["est"])
    if wrap:
        ctx.event("hit_across_0/12_wrap")
    return nt or wrap


# ------------------------------------------------------------ 4. note matching

@st.composite
def notes(draw, max_n=7):
    n = draw(st.integers(0, max_n))
    out = []
    for _ in range(n):
        on = draw(st.integers(0, 64)) / 16
        dur = draw(st.integers(1, 32)) / 16
        out.append([on, on + dur, draw(g.pitch_hz()), draw(st.integers(0, 127))])
    return sorted(out)


@st.composite
def derived_notes(draw, ref):
    out = []
    for on, off, p, v in ref:
        a = draw(st.sampled_from(["keep", "edit", "edit", "drop", "dup"]))
        if a == "drop":
            continue
        if a in ("keep", "dup"):
            out.append([on, off, p, v])
            if a == "dup":
                out.append([on, off, p, v])
            continue
        on2 = max(0.0, on + draw(st.sampled_from([0, 0, 1, -1, 2, -2, 4])) / 16)
        off2 = max(on2 + 1 / 16, off + draw(st.sampled_from([0, 0, 1, -1, 2, 4, -4, 8])) / 16)
        p2 = p * 2.0 ** (draw(st.sampled_from([0, 0, 10, 40, 49, 51, -49, -51, 99, 101, 1200])) / 1200.0)
        v2 = min(127, max(0, v + draw(st.sampled_from([0, 0, 5, -5, 20, -40]))))
        out.append([on2, off2, p2, v2])
    return out


@st.composite
def notes_case(draw):
    ref = draw(notes())
    est = draw(derived_notes(ref)) if ref and draw(st.integers(0, 2)) else draw(notes())
    return {"ref": ref, "est": est,
            "onset_tolerance": draw(st.sampled_from([1 / 16, 1 / 8, 0.05, 0.1, 0.25])),
            "pitch_tolerance": draw(st.sampled_from([50.0, 25.0, 100.0])),
            "offset_ratio": draw(st.sampled_from([None, 0.2, 0.5, 0.25])),
            "offset_min_tolerance": draw(st.sampled_from([0.05, 1 / 16, 1 / 8])),
            "strict": draw(st.booleans()),
            "rperm": draw(st.permutations(list(range(len(ref))))), "eperm": draw(st.permutations(list(range(len(est)))))}


def _cents(p, q):
    return abs(1200.0 * (math.log2(p) - math.log2(q)))


def note_feasibility(ref, est, c, use_onset=True, use_pitch=True, use_offset=True):
    """Stated predicate; times are multiples of 1/16 s so the 4-decimal rounding of the
    implementation is the identity and |.| is exact.  Returns (matrix, adjacent) where adjacent
    says a pitch distance is within 1e-6 cents of the tolerance (not asserted)."""
    strict = c["strict"]
    cmp = (lambda a, b: a < b) if strict else (lambda a, b: a <= b)
    adjacent = False
    M = []
    for ron, roff, rp, _ in ref:
        row = []
        for eon, eoff, ep, _ in est:
            ok = True
            if use_onset:
                ok = ok and cmp(abs(F(ron) - F(eon)), F(c["onset_tolerance"]))
            if use_pitch:
                d = _cents(rp, ep)
                if abs(d - c["pitch_tolerance"]) < 1e-6:
                    adjacent = True
                ok = ok and cmp(d, c["pitch_tolerance"])
            if use_offset and c["offset_ratio"] is not None:
                tol = max(c["offset_ratio"] * (roff - ron), c["offset_min_tolerance"])  # float product, as documented
                ok = ok and cmp(abs(F(roff) - F(eoff)), F(tol))
            row.append(bool(ok))
        M.append(row)
    return M, adjacent


def _arrs(ns):
    iv = np.array([[n[0], n[1]] for n in ns], dtype=float).reshape(-1, 2)
    return iv, np.array([n[2] for n in ns], dtype=float), np.array([n[3] for n in ns], dtype=float)


def pred_match_notes(case, ctx):
    ref, est = case["ref"], case["est"]
    nr, ne = len(ref), len(est)
    ri, rp, rv = _arrs(ref)
    ei, ep, ev = _arrs(est)
    kw = dict(onset_tolerance=case["onset_tolerance"], pitch_tolerance=case["pitch_tolerance"],
              offset_ratio=case["offset_ratio"], offset_min_tolerance=case["offset_min_tolerance"], strict=case["strict"])
    ref2 = [ref[i] for i in case["rperm"]]
    est2 = [est[i] for i in case["eperm"]]
    ri2, rp2, rv2 = _arrs(ref2)
    ei2, ep2, ev2 = _arrs(est2)
    nt = False
    runs = [
        ("match_notes", dict(), lambda: transcription.match_notes(ri, rp, ei, ep, **kw),
         lambda: transcription.match_notes(ri2, rp2, ei2, ep2, **kw)),
        ("match_note_onsets", dict(use_pitch=False, use_offset=False),
         lambda: transcription.match_note_onsets(ri, ei, onset_tolerance=kw["onset_tolerance"], strict=kw["strict"]),
         lambda: transcription.match_note_onsets(ri2, ei2, onset_tolerance=kw["onset_tolerance"], strict=kw["strict"])),
    ]
    if case["offset_ratio"] is not None:
        runs.append(("match_note_offsets", dict(use_pitch=False, use_onset=False),
                     lambda: transcription.match_note_offsets(ri, ei, offset_ratio=kw["offset_ratio"], offset_min_tolerance=kw["offset_min_tolerance"], strict=kw["strict"]),
                     lambda: transcription.match_note_offsets(ri2, ei2, offset_ratio=kw["offset_ratio"], offset_min_tolerance=kw["offset_min_tolerance"], strict=kw["strict"])))
    if nr and ne:
        # velocity variant pairs notes by the same criteria (velocity only filters afterwards)
        runs.append(("velocity.match_notes(velocity_tolerance=1.0)", dict(),
                     lambda: transcription_velocity.match_notes(ri, rp, rv, ei, ep, ev, velocity_tolerance=10.0, **kw),
                     lambda: transcription_velocity.match_notes(ri2, rp2, rv2, ei2, ep2, ev2, velocity_tolerance=10.0, **kw)))
    for name, sel, f1, f2 in runs:
        feas, adjacent = note_feasibility(ref, est, case, **sel)
        if adjacent:
            ctx.skip("pitch distance within 1e-6 cent of tolerance")
            continue
        want, adj = _max_size(feas, nr, ne)
        m = ctx.call(f1)
        _pairs_valid(m, nr, ne, feas, name)
        if name.startswith("velocity"):
            # velocity filter may only remove pairs: validity + upper bound here; equality without filter below
            if len(m) > want:
                raise Violation("%s returned %d pairs > maximum %d" % (name, len(m), want))
            if len(m) != want:
                raise Violation("%s with an all-accepting velocity tolerance returned %d pairs, maximum is %d" % (name, len(m), want))
        elif len(m) != want:
            raise Violation("%s: %d pairs returned, a matching of size %d exists; params %r" % (name, len(m), want, kw))
        m2 = ctx.call(f2)
        if len(m2) != len(m):
            raise Violation("%s: size %d changes to %d when notes are permuted" % (name, len(m), len(m2)))
        # the pairs returned for the PERMUTED input must be valid too (indices refer to the arrays as supplied, whatever their order)
        feas2 = [[feas[i][j] for j in case["eperm"]] for i in case["rperm"]]
        _pairs_valid(m2, nr, ne, feas2, name + " (notes supplied in a different order)")
        if om.greedy_size(range(nr), adj) < want:
            ctx.event("greedy_suboptimal:" + name.split("(")[0])
            nt = True
    onsets_edge = any(abs(F(r[0]) - F(e[0])) == F(case["onset_tolerance"]) for r in ref for e in est)
    dup = len({tuple(n[:3]) for n in ref}) < nr or len({tuple(n[:3]) for n in est}) < ne
    if onsets_edge:
        ctx.event("onset_distance==tolerance")
    if dup:
        ctx.event("duplicate_notes")
    ctx.event("strict" if case["strict"] else "non_strict")
    ctx.event("offset_ratio=None" if case["offset_ratio"] is None else "offset_ratio>0")
    return bool(nr and ne and (nt or onsets_edge or dup))


# -------------------------------------------- 5. multipitch true positives

@st.composite
def tp_case(draw):
    nf = draw(st.integers(1, 5))
    v = st.one_of(st.integers(24 * 8, 96 * 8).map(lambda k: k / 8), st.sampled_from([60.0, 60.5, 72.0, 72.5, 48.0, 59.5, 71.5]))
    fr = st.lists(v, max_size=5, unique=True)
    ref = [draw(fr) for _ in range(nf)]
    est = []
    for r in ref:
        if r and draw(st.integers(0, 2)) == 0:
            # a cluster of estimates around one reference pitch (at most one of them can be matched to it)
            c = r[draw(st.integers(0, len(r) - 1))]
            e = sorted({c + o for o in draw(st.lists(st.sampled_from([0.0, 0.125, -0.125, 0.25, -0.25, 0.375, -0.375, 0.5, -0.5]), min_size=2, max_size=4, unique=True))})
            est.append([x for x in e if x >= 0])
        else:
            est.append(draw(fr))
    return {"ref": ref, "est": est, "window": draw(st.sampled_from([0.25, 0.5, 1.0, 0.125]))}


def pred_num_tp(case, ctx):
    ref, est, w = case["ref"], case["est"], case["window"]
    rf = [np.asarray(x, dtype=float) for x in ref]
    ef = [np.asarray(x, dtype=float) for x in est]
    tp = ctx.call(multipitch.compute_num_true_positives, rf, ef, window=w)
    rfc = [np.mod(x, 12) for x in rf]
    efc = [np.mod(x, 12) for x in ef]
    tpc = ctx.call(multipitch.compute_num_true_positives, rfc, efc, window=w, chroma=True)
    nt = False
    for i, (r, e) in enumerate(zip(ref, est)):
        want, _ = _max_size([[abs(F(a) - F(b)) <= F(w) for b in e] for a in r], len(r), len(e))
        wantc, _ = _max_size([[_circ(a, b, w) for b in e] for a in r], len(r), len(e))
        if tp[i] != want:
            raise Violation("frame %d: %r true positives, maximum matching has %d" % (i, tp[i], want))
        if tpc[i] != wantc:
            raise Violation("frame %d (chroma): %r true positives, maximum matching has %d" % (i, tpc[i], wantc))
        if tp[i] > min(len(r), len(e)) or tpc[i] > min(len(r), len(e)):
            raise Violation("frame %d: more true positives than items" % i)
        if tpc[i] < tp[i]:
            raise Violation("frame %d: chroma count %r below raw count %r" % (i, tpc[i], tp[i]))
        if 0 < want < min(len(r), len(e)) or wantc > want:
            nt = True
    return nt



# ------------------------------------------------------ 7. long alternating paths (many notes)

@st.composite
def long_chain_case(draw):
    """Hundreds to thousands of repeated notes 80 ms apart; the estimate sits 40 ms after the reference, so every estimated note is within
    the default 50 ms of two reference notes.  The reference is listed block-wise latest-first (notes need not be sorted), which is the
    order on which a first-fit start is wrong everywhere and the maximum matching needs one alternating path through a whole block."""
    blocks = draw(st.lists(st.sampled_from([30, 150, 400, 700, 990, 1010, 1100, 1500, 2200]), min_size=1, max_size=3))
    if sum(blocks) > 3000:
        blocks = blocks[:1]
    return {"blocks": blocks, "reverse": draw(st.sampled_from([True, True, True, False])), "entry": draw(st.sampled_from(["onsets", "notes", "prf", "evaluate", "graph"]))}


def pred_long_chain(case, ctx):
    n = sum(case["blocks"])
    est_on = 1.0 + 0.08 * np.arange(n)
    ref_on = est_on - 0.04
    order = []
    start = 0
    for b in case["blocks"]:
        # within a block the last estimate must have a single partner: leave a gap after each block
        idx = list(range(start, start + b))
        order += idx[::-1] if case["reverse"] else idx
        start += b
    gap = np.zeros(n)
    for k, b in enumerate(np.cumsum(case["blocks"])[:-1]):
        gap[b:] += 1.0                      # one second of silence between blocks
    est_on, ref_on = est_on + gap, ref_on + gap
    ref_on = ref_on[order]
    ref = np.c_[ref_on, ref_on + 0.05]
    est = np.c_[est_on, est_on + 0.05]
    pit = np.full(n, 440.0)
    entry = case["entry"]
    if entry == "graph":
        g = {}
        for j in range(n):
            g[j] = [i for i in range(n) if abs(ref_on[i] - est_on[j]) <= 0.05 + 1e-9] if n <= 400 else None
        if n > 400:
            # same adjacency, built without the n^2 scan: estimate j is 40 ms after reference (sorted) j and 40 ms before j+1 of its block
            pos = {o: i for i, o in enumerate(order)}
            ends = set(int(b) - 1 for b in np.cumsum(case["blocks"]))
            for j in range(n):
                nb = [pos[j]] + ([pos[j + 1]] if j not in ends else [])
                g[j] = sorted(nb)
        m = ctx.call(util._bipartite_match, g)
        pairs = [(v, u) for v, u in m.items()]
    elif entry == "onsets":
        pairs = ctx.call(transcription.match_note_onsets, ref, est)
    elif entry == "notes":
        pairs = ctx.call(transcription.match_notes, ref, pit, est, pit.copy(), offset_ratio=None)
    elif entry == "prf":
        p, r, f, _ = ctx.call(transcription.precision_recall_f1_overlap, ref, pit, est, pit.copy())
        if not (p == r == f == 1.0):
            raise Violation("precision_recall_f1_overlap = %r on %d notes that can all be matched (blocks %r)" % ((p, r, f), n, case["blocks"]))
        pairs = None
    else:
        sc = ctx.call(transcription.evaluate, ref, pit, est, pit.copy())
        for k in ("Precision", "Recall", "Onset_Precision", "Onset_Recall", "Precision_no_offset"):
            if sc[k] != 1.0:
                raise Violation("transcription.evaluate %s = %r on %d notes that can all be matched (blocks %r)" % (k, sc[k], n, case["blocks"]))
        pairs = None
    if pairs is not None:
        if len(pairs) != n:
            raise Violation("%s: %d pairs for %d notes although a perfect matching exists by construction (blocks %r)" % (entry, len(pairs), n, case["blocks"]))
        rs, es = [int(a) for a, _ in pairs], [int(b) for _, b in pairs]
        if len(set(rs)) != n or len(set(es)) != n:
            raise Violation("%s: an item is matched more than once" % entry)
        bad = [(r_, e_) for r_, e_ in zip(rs, es) if not abs(ref_on[r_] - est_on[e_]) <= 0.05 + 1e-9]
        if bad:
            raise Violation("%s: pair %r is further apart than the onset tolerance" % (entry, bad[0]))
    deep = case["reverse"] and max(case["blocks"]) > 1000
    if deep:
        ctx.event("alternating_path_longer_than_1000")
    ctx.event("entry:" + entry)
    return case["reverse"] and max(case["blocks"]) >= 150


SUBPROPS = [
    SubProp("graphs_exhaustive", pred_graph, enum=enum_graphs, shards=(8, 16), exhaustive=True,
            rule="every bipartite graph up to the size bound x insertion orders; NT = greedy first-fit sub-optimal"),
    SubProp("graphs_random", pred_random_graph, strategy=random_graph, n=(1500, 40000), shards=(2, 8), floor=0.1,
            rule="random graphs up to 12x12 with planted chains/crowns; NT = greedy first-fit sub-optimal"),
    SubProp("match_events", pred_match_events, strategy=events_case, n=(1500, 40000), shards=(2, 8), floor=0.3,
            rule="NT = both sides non-empty and (a pair exactly on the window edge, duplicates, or greedy sub-optimal)"),
    SubProp("match_events_chroma", pred_match_chroma, strategy=chroma_case, n=(1500, 40000), shards=(2, 8), floor=0.1,
            rule="NT = as match_events, or a hit across the 0/12 wrap"),
    SubProp("match_notes", pred_match_notes, strategy=notes_case, n=(1200, 30000), shards=(2, 8), floor=0.2,
            rule="NT = both sides non-empty and (greedy sub-optimal, onset distance exactly on the tolerance, or duplicate notes)"),
    SubProp("num_true_positives", pred_num_tp, strategy=tp_case, n=(1000, 20000), shards=(1, 4), floor=0.2,
            rule="NT = a frame with 0 < TP < min(n_ref, n_est) or chroma TP > raw TP"),
    SubProp("long_alternating_paths", pred_long_chain, strategy=long_chain_case, n=(40, 600), shards=(8, 16), floor=0.3,
            rule="30..3000 repeated notes whose maximum matching needs one alternating path through a whole block (reference listed latest-first), through "
                 "_bipartite_match, match_note_onsets, match_notes, precision_recall_f1_overlap and evaluate; a perfect matching exists by construction; "
                 "NT = block of >= 150 notes in the adversarial order"),
]
