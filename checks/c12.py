"""C12 -- interval scores are duration-weighted and blind to how time is cut up."""
from fractions import Fraction as F

import numpy as np
from hypothesis import strategies as st

from gens import registry as R
from gens import segments as gs
from vlib.runner import SubProp, Violation

from mir_eval import chord, hierarchy, segment

PROPERTY_ID = "C12"
SCALE = (4, 5)   # budget multiplier (quick, thorough) applied to the n=(...) of every generated sub-property
LEVEL = "exploration"
RULE = ("chord / segment / one- or multi-level hierarchy annotations on a 1/8 s lattice and a refinement of them: every interval cut at 0-3 interior "
        "lattice points, the pieces keep the label, independently for reference and estimate; chord labels include N, X and extended chords that "
        "merge_chord_intervals must fuse; separately comparison vectors over {-1, 0, 1} with positive weights and a scale factor; non-trivial = at "
        "least one interval actually split and >= 2 distinct labels; distinct by SHA-1")
ASSUMPTIONS = ["scores before/after refinement are compared to 1e-9 (durations are summed in a different order)",
               "weighted_accuracy is compared with sum(w[c=1]) / sum(w[c>=0]) computed with Fractions"]
TOL = 1e-9
Q = 16


def _a(x):
    return np.asarray(x, dtype=float).reshape(-1, 2)


@st.composite
def refine(draw, iv, labs):
    """cut every interval at 0-3 interior lattice points (lattice 1/Q); pieces keep the label"""
    out_iv, out_l = [], []
    split = False
    for (s, e), l in zip(iv, labs):
        k0, k1 = int(round(s * Q)), int(round(e * Q))
        cuts = sorted(draw(st.lists(st.integers(k0 + 1, k1 - 1), max_size=3, unique=True))) if k1 - k0 > 1 and draw(st.booleans()) else []
        b = [k0] + cuts + [k1]
        for i in range(len(b) - 1):
            out_iv.append([b[i] / Q, b[i + 1] / Q])
            out_l.append(l)
        split = split or bool(cuts)
    return out_iv, out_l, split


@st.composite
def chord_case(draw):
    c = draw(R.chord_case())
    c["ref2"] = draw(refine(c["ref"]["iv"], c["ref"]["lab"]))
    c["est2"] = draw(refine(c["est"]["iv"], c["est"]["lab"]))
    return c


def pred_chord(case, ctx):
    ri, rl, ei, el = _a(case["ref"]["iv"]), case["ref"]["lab"], _a(case["est"]["iv"]), case["est"]["lab"]
    r2i, r2l, sr = case["ref2"]
    e2i, e2l, se = case["est2"]
    s0 = ctx.call(chord.evaluate, ri, list(rl), ei, list(el))
    s1 = ctx.call(chord.evaluate, _a(r2i), list(r2l), _a(e2i), list(e2l))
    for k in s0:
        if not abs(float(s0[k]) - float(s1[k])) <= TOL:
            raise Violation("chord.evaluate[%r] changes from %r to %r when intervals are split into same-label pieces; ref %r %r -> %r %r; est %r %r -> %r %r"
                            % (k, s0[k], s1[k], case["ref"]["iv"], rl, r2i, r2l, case["est"]["iv"], el, e2i, e2l))
    return (sr or se) and len(set(rl) | set(el)) >= 2


@st.composite
def segment_case(draw):
    c = draw(gs.segmentation_pair(frame_sizes=[0.125, 0.25, 0.5, 1.0, 0.1, 0.3, 0.75]))
    c["ref2"] = draw(refine(c["ref_iv"], c["ref_lab"]))
    c["est2"] = draw(refine(c["est_iv"], c["est_lab"]))
    return c


def pred_segment(case, ctx):
    a, al, b, bl, fs = _a(case["ref_iv"]), case["ref_lab"], _a(case["est_iv"]), case["est_lab"], case["frame_size"]
    if int(np.floor(case["ref_iv"][-1][1] / fs)) < 1:
        return False
    a2i, a2l, sa = case["ref2"]
    b2i, b2l, sb = case["est2"]
    for fn in (segment.pairwise, segment.rand_index, segment.ari, segment.mutual_information, segment.nce, segment.vmeasure):
        v0 = np.atleast_1d(ctx.call(fn, a, list(al), b, list(bl), frame_size=fs)).astype(float)
        v1 = np.atleast_1d(ctx.call(fn, _a(a2i), list(a2l), _a(b2i), list(b2l), frame_size=fs)).astype(float)
        for x, y in zip(v0, v1):
            if not (abs(x - y) <= TOL or (np.isnan(x) and np.isnan(y))):
                raise Violation("segment.%s changes from %r to %r when segments are split into same-label pieces (frame_size %r); %r %r -> %r; %r %r -> %r"
                                % (fn.__name__, v0.tolist(), v1.tolist(), fs, case["ref_iv"], al, a2i, case["est_iv"], bl, b2i))
    return (sa or sb) and len({l.lower() for l in al} | {l.lower() for l in bl}) >= 2


@st.composite
def hier_case(draw):
    T = draw(st.integers(4, 24)) / 4
    ri, rl = draw(gs.hierarchy(T))
    ei, el = draw(gs.hierarchy(T))
    r2 = [draw(refine(iv, lab)) for iv, lab in zip(ri, rl)]
    e2 = [draw(refine(iv, lab)) for iv, lab in zip(ei, el)]
    return {"ref": {"iv": ri, "lab": rl}, "est": {"iv": ei, "lab": el}, "ref2": r2, "est2": e2, "frame_size": draw(st.sampled_from([0.25, 0.5, 1.0]))}


def pred_hier(case, ctx):
    ri = [_a(l) for l in case["ref"]["iv"]]
    ei = [_a(l) for l in case["est"]["iv"]]
    r2i, r2l = [_a(x[0]) for x in case["ref2"]], [list(x[1]) for x in case["ref2"]]
    e2i, e2l = [_a(x[0]) for x in case["est2"]], [list(x[1]) for x in case["est2"]]
    fs = case["frame_size"]
    v0 = ctx.call(hierarchy.lmeasure, ri, case["ref"]["lab"], ei, case["est"]["lab"], frame_size=fs)
    v1 = ctx.call(hierarchy.lmeasure, r2i, r2l, e2i, e2l, frame_size=fs)
    for x, y in zip(v0, v1):
        if not abs(x - y) <= TOL:
            raise Violation("hierarchy.lmeasure changes from %r to %r when segments are split into same-label pieces; case %r" % (v0, v1, case))
    split = any(x[2] for x in case["ref2"]) or any(x[2] for x in case["est2"])
    labs = {l.lower() for lv in case["ref"]["lab"] + case["est"]["lab"] for l in lv}
    return split and len(labs) >= 2


@st.composite
def wa_case(draw):
    n = draw(st.integers(1, 10))
    kind = draw(st.sampled_from(["mixed", "mixed", "all_one", "all_zero", "all_x"]))
    if kind == "mixed":
        comp = draw(st.lists(st.sampled_from([-1.0, 0.0, 1.0]), min_size=n, max_size=n))
    elif kind == "all_one":
        comp = [draw(st.sampled_from([1.0, 1.0, -1.0])) for _ in range(n)]
    elif kind == "all_zero":
        comp = [draw(st.sampled_from([0.0, 0.0, -1.0])) for _ in range(n)]
    else:
        comp = [-1.0] * n
    w = [draw(st.integers(1, 64)) / 16 for _ in range(n)]      # durations of real intervals are strictly positive
    return {"comp": comp, "w": w, "scale": draw(st.sampled_from([0.5, 3.0, 1e-3, 1000.0, 7.0, 1e-10, 2.0 ** -40, 1e9]))}     # also a time axis in tiny / huge units


def pred_wa(case, ctx):
    c, w, k = np.array(case["comp"]), np.array(case["w"]), case["scale"]
    v = float(ctx.call(chord.weighted_accuracy, c, w))
    v2 = float(ctx.call(chord.weighted_accuracy, c, w * k))
    if not abs(v - v2) <= 1e-12:
        raise Violation("weighted_accuracy changes from %r to %r when all weights are multiplied by %r; %r" % (v, v2, k, case))
    num = sum(F(x) for x, y in zip(case["w"], case["comp"]) if y == 1)
    den = sum(F(x) for x, y in zip(case["w"], case["comp"]) if y >= 0)
    tot = sum(F(x) for x in case["w"])
    want = float(num / den) if den > 0 else 0.0
    if tot == 0:
        want = 0.0
    if not abs(v - want) <= 1e-12:
        raise Violation("weighted_accuracy(%r, %r) = %r, duration-weighted mean over comparable intervals is %r" % (case["comp"], case["w"], v, want))
    comparable = [(x, y) for x, y in zip(case["w"], case["comp"]) if y >= 0 and x > 0]
    if comparable and all(y == 1 for _, y in comparable) and abs(v - 1) > 1e-12:
        raise Violation("weighted_accuracy = %r although every comparable comparison is 1" % v)
    if comparable and all(y == 0 for _, y in comparable) and abs(v) > 1e-12:
        raise Violation("weighted_accuracy = %r although every comparable comparison is 0" % v)
    return len(comparable) >= 2 and 0 < v < 1


SUBPROPS = [
    SubProp("chord_refinement", pred_chord, strategy=chord_case, n=(600, 15000), shards=(4, 8), floor=0.15, rule="chord.evaluate incl. over/under-segmentation; NT = a split happened and >= 2 labels"),
    SubProp("segment_refinement", pred_segment, strategy=segment_case, n=(700, 15000), shards=(4, 8), floor=0.15, rule="frame-based segment scores; NT = a split happened and >= 2 labels"),
    SubProp("hierarchy_refinement", pred_hier, strategy=hier_case, n=(250, 5000), shards=(4, 8), floor=0.15, rule="hierarchy.lmeasure; NT = a split happened and >= 2 labels"),
    SubProp("weighted_accuracy_laws", pred_wa, strategy=wa_case, n=(1500, 30000), shards=(1, 4), floor=0.15, rule="scale invariance, all-1 / all-0, equals the weighted fraction; NT = >= 2 comparable intervals and 0 < value < 1"),
]
