"""C11 -- chord comparison rules form the documented lattice."""
import numpy as np
from hypothesis import strategies as st

from oracles import harte as H
from vlib.runner import SubProp, Violation

from mir_eval import chord

PROPERTY_ID = "C11"
SCALE = (2, 1)   # budget multiplier (quick, thorough) applied to the n=(...) of every generated sub-property
LEVEL = "exploration"
RULE = ("label pairs over a pool of grammar-valid, encodable labels (3 roots x 26 shorthands x 9 degree edits x 11 basses + N, X, bare "
        "roots, degree-only labels); generated part: estimates biased to share root/triad/tetrad/bass with the reference; exhaustive part: "
        "all ordered pairs over a core label set (quick ~140 labels, thorough ~600) and inside each of the 79 groups of labels over all 12 roots that sound the same pitch-class set; non-trivial = a pair on which at least two of the 12 "
        "rules give different values; enumerated pairs distinct by construction, generated ones by SHA-1")
ASSUMPTIONS = [
    "vocabulary and expected values are computed from the independent encoder in /verif/oracles/harte.py (bass inserted into the bitmap, as documented for encode)",
    "'bass is a chord tone' is read on the encoded chord; mirex with estimate X is not value-checked (X has no pitch-class set)",
]
FNS = ["thirds", "thirds_inv", "triads", "triads_inv", "tetrads", "tetrads_inv", "root", "mirex", "majmin", "majmin_inv",
       "sevenths", "sevenths_inv"]
IMPLIES = [("tetrads_inv", "tetrads"), ("tetrads", "triads"), ("triads", "thirds"), ("thirds", "root"), ("thirds_inv", "thirds"),
           ("triads_inv", "triads"), ("tetrads_inv", "triads_inv"), ("triads_inv", "thirds_inv"), ("majmin_inv", "majmin"),
           ("sevenths_inv", "sevenths"), ("majmin", "triads"), ("sevenths", "tetrads")]
MAJ = [1, 0, 0, 0, 1, 0, 0, 1, 0, 0, 0, 0]
MIN = [1, 0, 0, 1, 0, 0, 0, 1, 0, 0, 0, 0]
SEVENTHS = [MAJ, MIN, [1, 0, 0, 0, 1, 0, 0, 1, 0, 0, 0, 1], [1, 0, 0, 0, 1, 0, 0, 1, 0, 0, 1, 0], [1, 0, 0, 1, 0, 0, 0, 1, 0, 0, 1, 0]]


def _enc(label):
    r, bm, b, _ = H.encode(H.parse(label), False, False)
    return r, bm, b


def encodable(label):
    try:
        _enc(label)
        return True
    except H.Reject:
        return False


def model(ref, est):
    """Expected value of each rule from the documented definitions (A.6); None = not value-checked."""
    rr, rb, rbass = _enc(ref)
    er, eb, ebass = _enc(est)
    out = {}
    x = ref == "X"
    n = ref == "N"
    eq_root = rr == er
    eq_bass = rbass == ebass
    out["root"] = -1 if x else int(eq_root)
    out["thirds"] = -1 if x else int(eq_root and rb[3] == eb[3])
    out["thirds_inv"] = -1 if x else int(eq_root and rb[3] == eb[3] and eq_bass)
    out["triads"] = -1 if x else int(eq_root and rb[:8] == eb[:8])
    out["triads_inv"] = -1 if x else int(eq_root and rb[:8] == eb[:8] and eq_bass)
    out["tetrads"] = -1 if x else int(eq_root and rb == eb)
    out["tetrads_inv"] = -1 if x else int(eq_root and rb == eb and eq_bass)
    mm = n or (not x and (rb[:8] == MAJ[:8] or rb[:8] == MIN[:8]))
    out["majmin"] = int(eq_root and rb[:8] == eb[:8]) if mm else -1
    mmi = mm and (n or rb[rbass] == 1)
    out["majmin_inv"] = int(eq_root and eq_bass and rb[:8] == eb[:8]) if mmi else -1
    sv = n or (not x and rb in SEVENTHS)
    out["sevenths"] = int(eq_root and rb == eb) if sv else -1
    svi = sv and (n or rb[rbass] == 1)
    out["sevenths_inv"] = int(eq_root and eq_bass and rb == eb) if svi else -1
    cnt = sum(1 for v in rb if v > 0)
    if x or 0 < cnt < 3:
        out["mirex"] = -1
    elif est == "X":
        out["mirex"] = None
    elif n and est == "N":
        out["mirex"] = 1
    elif n or est == "N":
        out["mirex"] = 0
    else:
        ra = {(i + rr) % 12 for i, v in enumerate(rb) if v}
        ea = {(i + er) % 12 for i, v in enumerate(eb) if v}
        out["mirex"] = int(len(ra & ea) >= 3)
    return out


def check_lists(refs, ests, ctx):
    """refs, ests: equal-length label lists.  Returns number of pairs on which >= 2 rules differ."""
    res = {}
    for f in FNS:
        v = ctx.call(getattr(chord, f), list(refs), list(ests))
        v = np.asarray(v)
        if v.shape != (len(refs),):
            raise Violation("%s returned shape %r for %d pairs" % (f, v.shape, len(refs)))
        res[f] = v
    nt = 0
    for i, (r, e) in enumerate(zip(refs, ests)):
        vals = {f: float(res[f][i]) for f in FNS}
        for f, v in vals.items():
            if v not in (-1.0, 0.0, 1.0):
                raise Violation("%s(%r, %r) = %r is not one of -1, 0, 1" % (f, r, e, v))
        m = model(r, e)
        for f in FNS:
            if m[f] is not None and vals[f] != m[f]:
                raise Violation("%s(%r, %r) = %r, documented rule gives %r" % (f, r, e, vals[f], m[f]))
        for a, b in IMPLIES:
            if vals[a] == 1 and vals[b] != 1:
                raise Violation("%s(%r, %r) = 1 but %s = %r (stricter rule must imply looser)" % (a, r, e, b, vals[b]))
        if vals["tetrads"] == 1 and vals["mirex"] == 0:
            raise Violation("tetrads(%r, %r) = 1 but mirex = 0" % (r, e))
        if r == e:
            for f, v in vals.items():
                if v == 0:
                    raise Violation("%s(%r, %r) = 0 for identical labels" % (f, r, e))
        if len(set(vals.values())) >= 2:
            nt += 1
    return res, nt


# ------------------------------------------------------------------ label pools

ROOTS = ["C", "Db", "F#"]
EDITS = ["", "(9)", "(*3)", "(*5)", "(b7)", "(*1)", "(#5)", "(4)", "(7)"]
BASSES = ["", "/3", "/b3", "/5", "/b7", "/7", "/2", "/6", "/4", "/b5", "/9"]


def _pool():
    labs = ["N", "X"]
    for r in ROOTS:
        labs.append(r)
        for sh in H.SHORTHANDS:
            for ext in EDITS:
                for b in BASSES:
                    labs.append("%s:%s%s%s" % (r, sh, ext, b))
        for ext in ["(3)", "(3,5)", "(b3,5,b7)", "(5)", "(1)", "(3,5,7)", "(b3,5)"]:
            for b in ["", "/3", "/5"]:
                labs.append("%s:%s%s" % (r, ext, b))
    return [l for l in labs if encodable(l)]


_POOL = None


def pool():
    global _POOL
    if _POOL is None:
        _POOL = _pool()
    return _POOL


def core(tier):
    sh = ["maj", "min", "7", "maj7", "min7", "dim", "aug", "sus4", "5", "1", "9", "min6", "hdim7"] if tier == "quick" else \
        [s for s in H.SHORTHANDS if s not in ("aug7", "maj11")]
    roots = ["C", "Db"] if tier == "quick" else ["C", "Db", "F#"]
    edits = ["", "(*3)", "(b7)"] if tier == "quick" else ["", "(*3)", "(b7)", "(*5)", "(9)"]
    basses = ["", "/3", "/5", "/b7"] if tier == "quick" else ["", "/3", "/b3", "/5", "/b7", "/2"]
    labs = ["N", "X", "C", "C:(3,5)", "C:(b3,5)/b3", "B#:maj", "C#:min"]
    for r in roots:
        for s in sh:
            for e in edits:
                for b in basses:
                    if (e and b) and tier == "quick":
                        continue
                    labs.append("%s:%s%s%s" % (r, s, e, b))
    return [l for l in dict.fromkeys(labs) if encodable(l)]


def enum_core(tier, shard, nshards):
    c = core(tier)
    for i, r in enumerate(c):
        if i % nshards == shard:
            yield {"ref": r, "tier": tier}


def pred_core(case, ctx):
    c = core(case["tier"])
    _, nt = check_lists([case["ref"]] * len(c), c, ctx)
    # "-1 depends on the reference alone": all estimates must agree on it
    ctx.events["pairs"] += len(c)
    ctx.events["pairs_nontrivial"] += nt
    for f in FNS:
        v = np.asarray(getattr(chord, f)([case["ref"]] * len(c), c))
        if len({bool(x == -1) for x in v}) > 1:
            raise Violation("%s: whether reference %r is in the vocabulary depends on the estimate" % (f, case["ref"]))
    return nt > 0


@st.composite
def biased_pair(draw):
    p = pool()
    ref = draw(st.sampled_from(p))

    def near(lab):
        how = draw(st.sampled_from(["same", "rebass", "reedit", "requal", "reroot", "any", "any"]))
        if lab in ("N", "X") or ":" not in lab or how == "any":
            return draw(st.sampled_from(p))
        if how == "same":
            return lab
        root, rest = lab.split(":", 1)
        body, _, bass = rest.partition("/")
        qual, par, deg = body.partition("(")
        if how == "rebass":
            cand = "%s:%s%s" % (root, body, draw(st.sampled_from(BASSES)))
        elif how == "reedit":
            cand = "%s:%s%s%s" % (root, qual, draw(st.sampled_from(EDITS)), ("/" + bass) if bass else "")
        elif how == "requal":
            cand = "%s:%s%s%s" % (root, draw(st.sampled_from(H.SHORTHANDS)), par + deg, ("/" + bass) if bass else "")
        else:
            cand = "%s:%s" % (draw(st.sampled_from(ROOTS + ["C#", "B#", "Gb"])), rest)
        return cand if H.accepts(cand) and encodable(cand) else draw(st.sampled_from(p))
    return {"ref": ref, "est1": near(ref), "est2": near(ref), "ref2": draw(st.sampled_from(p + ["X", "N", "X", "N"]))}


def pred_pair(case, ctx):
    r, e1, e2 = case["ref"], case["est1"], case["est2"]
    res, nt = check_lists([r, r, r], [e1, e2, r], ctx)
    for f in FNS:
        if (res[f][0] == -1) != (res[f][1] == -1) or (res[f][0] == -1) != (res[f][2] == -1):
            raise Violation("%s: reference %r is -1 against one estimate but not another (%r, %r)" % (f, r, e1, e2))
    if any(res[f][0] == 1 for f in FNS):
        ctx.event("some_rule_matches")
    # a comparison is decided pair by pair: evaluating a whole list (mixed references, incl. X and N somewhere in it) must give exactly
    # what the single-pair calls give
    if "ref2" in case:
        R_ = [r, case["ref2"], r, "X", "N", case["ref2"]]
        E_ = [e1, e2, r, e1, e2, "X"]
        for f in FNS:
            batch = np.asarray(ctx.call(getattr(chord, f), list(R_), list(E_)), dtype=float)
            for i, (a_, b_) in enumerate(zip(R_, E_)):
                single = float(np.asarray(ctx.call(getattr(chord, f), [a_], [b_]))[0])
                if batch[i] != single:
                    raise Violation("%s(%r, %r) = %r inside the list %r but %r when called on that pair alone" % (f, a_, b_, batch[i], R_, single))
        ctx.event("mixed_reference_list")
    return nt > 0


# ------------------------------------------------------------------ same sounding notes, another root

ALL_ROOTS = ["C", "Db", "D", "Eb", "E", "F", "F#", "G", "Ab", "A", "Bb", "B"]
_GROUPS = None


def sounding_groups():
    """Labels over all 12 roots grouped by their *sounding* pitch-class set (bitmap rotated to the root): C:maj6 / A:min7, C:min6 / A:hdim7,
    C:sus4 / F:sus2, the three spellings of an augmented triad, the four of a diminished seventh ...  Only groups with >= 2 roots are kept."""
    global _GROUPS
    if _GROUPS is None:
        g = {}
        for r in ALL_ROOTS:
            for sh in H.SHORTHANDS:
                for e in ["", "(*5)", "(9)"]:
                    lab = "%s:%s%s" % (r, sh, e)
                    if not encodable(lab):
                        continue
                    rr, bm, _ = _enc(lab)
                    key = tuple(sorted((i + rr) % 12 for i, v in enumerate(bm) if v))
                    g.setdefault(key, []).append((lab, rr, bm))
        _GROUPS = [v for k, v in sorted(g.items()) if len({x[1] for x in v}) >= 2]
    return _GROUPS


def enum_sounding(tier, shard, nshards):
    for i in range(len(sounding_groups())):
        if i % nshards == shard:
            yield {"group": i}


DEG_OF = {0: "1", 1: "b2", 2: "2", 3: "b3", 4: "3", 5: "4", 6: "b5", 7: "5", 8: "b6", 9: "6", 10: "b7", 11: "7"}


def pred_sounding(case, ctx):
    """Chords that sound the same notes over the same bass but are rooted differently are different chords for every rule except mirex:
    each member of a group, in every inversion on one of its own tones, against each member of the group over every sounding bass."""
    grp = sounding_groups()[case["group"]]
    labs = []
    for lab, rr, bm in grp:
        for i, v in enumerate(bm):
            if v:
                cand = lab if i == 0 else "%s/%s" % (lab, DEG_OF[i])
                if H.accepts(cand) and encodable(cand):
                    labs.append(cand)
    labs = labs[:60]
    refs = [a for a in labs for b in labs]
    ests = [b for a in labs for b in labs]
    _, nt = check_lists(refs, ests, ctx)
    ctx.events["pairs"] += len(refs)
    ctx.events["pairs_same_notes_other_root"] += sum(1 for a, b in zip(refs, ests) if _enc(a)[0] != _enc(b)[0])
    return nt > 0


SUBPROPS = [
    SubProp("same_notes_other_root", pred_sounding, enum=enum_sounding, shards=(8, 16), exhaustive=True, min_nt=5,
            rule="labels over all 12 roots x 26 shorthands x 3 degree edits grouped by sounding pitch-class set; one case = one group with >= 2 roots, every member "
                 "in every inversion on its own tones against every other (all ordered pairs, cap 60 labels); NT = >= 2 rules differ on some pair"),
    SubProp("core_pairs_exhaustive", pred_core, enum=enum_core, shards=(8, 16), exhaustive=True, min_nt=10,
            rule="one case = one reference label against every label of the core set (all ordered pairs); NT counted per reference with >= 1 pair on which two rules differ (pair counts in classes)"),
    SubProp("biased_pairs", pred_pair, strategy=biased_pair, n=(3000, 100000), shards=(2, 8), floor=0.3,
            rule="reference from an ~8 000-label pool, two estimates biased to share root/quality/degrees/bass; NT = >= 2 rules disagree on some pair"),
]
