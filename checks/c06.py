"""C06 -- swapping reference and estimate exchanges precision and recall."""
import numpy as np
from hypothesis import strategies as st

from gens import base as g
from gens import pitch as gp
from gens import registry as R
from gens import segments as gs
from gens import tasks as gt
from vlib.runner import SubProp, Violation

from mir_eval import beat, chord, hierarchy, multipitch, onset, pattern, segment, transcription

PROPERTY_ID = "C06"
SCALE = (3, 2)   # budget multiplier (quick, thorough) applied to the n=(...) of every generated sub-property
LEVEL = "exploration"
RULE = ("pairs (a, b) valid in both roles (same span from 0 for segment/hierarchy, same time base for multipitch, beta = 1) on exact lattices with "
        "windows / frame sizes drawn; metric(a, b) is compared with metric(b, a): precision <-> recall, over <-> under, ref-to-est <-> est-to-ref, "
        "symmetric scores equal; non-trivial = |a| != |b| and precision != recall (otherwise a wrong denominator is invisible); distinct by SHA-1")
ASSUMPTIONS = ["equality to 1e-12: both calls perform the same floating-point operations, at most in a different summation order",
               "only the functions the statement lists as symmetric are asserted (e.g. transcription with offsets is not: its tolerance depends on the reference duration)",
               "with beta != 1 the F-measure of (a, b) is compared with the F-measure of (b, a) at 1/beta: F_beta(P, R) = F_(1/beta)(R, P) follows from the documented formula"]
TOL = 1e-12


def _a(x):
    return np.asarray(x, dtype=float)


def _eq(name, x, y, case):
    x, y = float(x), float(y)
    if not (abs(x - y) <= TOL or (np.isnan(x) and np.isnan(y))):
        raise Violation("%s: %r vs %r after exchanging reference and estimate; case %r" % (name, x, y, case))


def _swap3(name, f1, f2, case, order="prf"):
    """f1 = metric(a,b), f2 = metric(b,a) as (P, R, F) (order 'prf') or (F, P, R) (order 'fpr')"""
    if order == "fpr":
        f1, f2 = (f1[1], f1[2], f1[0]), (f2[1], f2[2], f2[0])
    _eq(name + " P(a,b) = R(b,a)", f1[0], f2[1], case)
    _eq(name + " R(a,b) = P(b,a)", f1[1], f2[0], case)
    _eq(name + " F(a,b) = F(b,a)", f1[2], f2[2], case)
    return float(f1[0]) != float(f1[1])


@st.composite
def events_case(draw):
    ref, est = draw(g.event_pair(q=16, lo=5.0, hi=15.0, max_n=10))
    return {"a": ref, "b": est, "window": draw(st.sampled_from([0.07, 0.05, 0.0625, 0.125, 0.5]))}


def pred_events(case, ctx):
    a, b, w = _a(case["a"]), _a(case["b"]), case["window"]
    _eq("beat.f_measure", ctx.call(beat.f_measure, a, b, f_measure_threshold=w), ctx.call(beat.f_measure, b, a, f_measure_threshold=w), case)
    o1 = ctx.call(onset.f_measure, a, b, window=w)
    o2 = ctx.call(onset.f_measure, b, a, window=w)
    ne = _swap3("onset.f_measure", o1, o2, case, "fpr")
    return len(case["a"]) != len(case["b"]) and ne


def pred_segment(case, ctx):
    a, al, b, bl, fs = _a(case["ref_iv"]), case["ref_lab"], _a(case["est_iv"]), case["est_lab"], case["frame_size"]
    w = [0.5, 3.0, 0.25][len(al) % 3]
    # F_beta(P, R) with the roles exchanged is F_(1/beta)(R, P): beta goes in on one side, 1/beta on the other
    be = case["beta"]
    kb1, kb2 = ({}, {}) if be == 1.0 else ({"beta": be}, {"beta": 1.0 / be})
    if kb1:
        ctx.event("beta!=1")
    nt = False
    for trim in (False, True):
        nt |= _swap3("segment.detection(trim=%s)" % trim, ctx.call(segment.detection, a, b, window=w, trim=trim, **kb1), ctx.call(segment.detection, b, a, window=w, trim=trim, **kb2), case)
        d1, d2 = ctx.call(segment.deviation, a, b, trim=trim), ctx.call(segment.deviation, b, a, trim=trim)
        _eq("deviation ref-to-est(a,b) = est-to-ref(b,a)", d1[0], d2[1], case)
        _eq("deviation est-to-ref(a,b) = ref-to-est(b,a)", d1[1], d2[0], case)
    T = case["ref_iv"][-1][1]
    if int(np.floor(T / fs)) < 2:
        return False
    nt |= _swap3("segment.pairwise", ctx.call(segment.pairwise, a, al, b, bl, frame_size=fs, **kb1), ctx.call(segment.pairwise, b, bl, a, al, frame_size=fs, **kb2), case)
    _eq("rand_index", ctx.call(segment.rand_index, a, al, b, bl, frame_size=fs), ctx.call(segment.rand_index, b, bl, a, al, frame_size=fs), case)
    _eq("ari", ctx.call(segment.ari, a, al, b, bl, frame_size=fs), ctx.call(segment.ari, b, bl, a, al, frame_size=fs), case)
    m1, m2 = ctx.call(segment.mutual_information, a, al, b, bl, frame_size=fs), ctx.call(segment.mutual_information, b, bl, a, al, frame_size=fs)
    for nm, x, y in zip(("MI", "AMI", "NMI"), m1, m2):
        _eq(nm, x, y, case)
    for marg in (False, True):
        nt |= _swap3("nce(marginal=%s) over<->under" % marg, ctx.call(segment.nce, a, al, b, bl, frame_size=fs, marginal=marg, **kb1),
                     ctx.call(segment.nce, b, bl, a, al, frame_size=fs, marginal=marg, **kb2), case)
    nt |= _swap3("vmeasure", ctx.call(segment.vmeasure, a, al, b, bl, frame_size=fs, **kb1), ctx.call(segment.vmeasure, b, bl, a, al, frame_size=fs, **kb2), case)
    _eq("chord.overseg(a,b) = chord.underseg(b,a)", ctx.call(chord.overseg, a, b), ctx.call(chord.underseg, b, a), case)
    _eq("chord.underseg(a,b) = chord.overseg(b,a)", ctx.call(chord.underseg, a, b), ctx.call(chord.overseg, b, a), case)
    _eq("chord.seg", ctx.call(chord.seg, a, b), ctx.call(chord.seg, b, a), case)
    return len(al) != len(bl) and nt


@st.composite
def multipitch_case(draw):
    c = draw(gp.multipitch_pair(same_timebase=True))
    c["ulp"] = draw(st.booleans())      # the second annotation's grid differs from the first by floating-point rounding only
    return c


@st.composite
def boundary_span_case(draw):
    """boundary detection / deviation accept annotations with DIFFERENT spans (only the structure metrics need equal spans)"""
    t0a = draw(st.sampled_from([0.0, 0.0, 0.5, 2.0]))
    Ta = t0a + draw(st.integers(2, 40)) / 2
    a = draw(gs.partition(Ta, q=8, t0=t0a))
    t0b = draw(st.sampled_from([0.0, 0.5, 1.0, 3.0]))
    Tb = t0b + draw(st.integers(2, 40)) / 2
    b = draw(gs.partition(Tb, q=8, t0=t0b))
    return {"a": a, "b": b, "window": draw(st.sampled_from([0.5, 3.0, 0.25, 1.0])), "trim": draw(st.booleans()), "beta": draw(st.sampled_from([1.0, 1.0, 0.5, 2.0]))}


def pred_boundary_span(case, ctx):
    a, b, w, trim = _a(case["a"]).reshape(-1, 2), _a(case["b"]).reshape(-1, 2), case["window"], case["trim"]
    nt = _swap3("segment.detection(trim=%s, different spans)" % trim, ctx.call(segment.detection, a, b, window=w, trim=trim, beta=case["beta"]),
                ctx.call(segment.detection, b, a, window=w, trim=trim, beta=1.0 / case["beta"]), case)
    d1, d2 = ctx.call(segment.deviation, a, b, trim=trim), ctx.call(segment.deviation, b, a, trim=trim)
    _eq("deviation ref-to-est(a,b) = est-to-ref(b,a)", d1[0], d2[1], case)
    _eq("deviation est-to-ref(a,b) = ref-to-est(b,a)", d1[1], d2[0], case)
    if trim:
        ctx.event("trim")
    return len(a) != len(b) and nt


def pred_multipitch(case, ctx):
    t = _a(case["ref_time"])
    if len(t) == 0:
        return False
    rf, ef = R.hz_frames(case["ref_freqs"]), R.hz_frames(case["est_freqs"])
    w = case["window"]
    t2 = t.copy()
    if case.get("ulp"):
        t2[0] = np.nextafter(t2[0], np.inf)
        if len(t2) > 1:
            t2[-1] = np.nextafter(t2[-1], -np.inf)
        ctx.event("grids_equal_up_to_rounding")
    m1 = ctx.call(multipitch.metrics, t, rf, t2, ef, window=w)
    m2 = ctx.call(multipitch.metrics, t2, ef, t, rf, window=w)
    _eq("multipitch P(a,b) = R(b,a)", m1[0], m2[1], case)
    _eq("multipitch R(a,b) = P(b,a)", m1[1], m2[0], case)
    _eq("multipitch accuracy", m1[2], m2[2], case)
    _eq("multipitch chroma P(a,b) = R(b,a)", m1[7], m2[8], case)
    _eq("multipitch chroma R(a,b) = P(b,a)", m1[8], m2[7], case)
    _eq("multipitch chroma accuracy", m1[9], m2[9], case)
    na, nb = sum(len(f) for f in case["ref_freqs"]), sum(len(f) for f in case["est_freqs"])
    return na != nb and float(m1[0]) != float(m1[1])


def pred_transcription(case, ctx):
    from checks.c05 import _arrs
    ai, ap, _ = _arrs(case["ref"])
    bi, bp, _ = _arrs(case["est"])
    kw = dict(onset_tolerance=case["onset_tolerance"], strict=case["strict"])
    be = case["beta"]
    nt = _swap3("onset_precision_recall_f1", ctx.call(transcription.onset_precision_recall_f1, ai, bi, beta=be, **kw),
                ctx.call(transcription.onset_precision_recall_f1, bi, ai, beta=1.0 / be, **kw), case)
    # offset_min_tolerance is passed although offsets are switched off: it must not matter
    k2 = dict(kw, pitch_tolerance=case["pitch_tolerance"], offset_ratio=None, offset_min_tolerance=case["offset_min_tolerance"])
    p1 = ctx.call(transcription.precision_recall_f1_overlap, ai, ap, bi, bp, beta=be, **k2)
    p2 = ctx.call(transcription.precision_recall_f1_overlap, bi, bp, ai, ap, beta=1.0 / be, **k2)
    nt |= _swap3("precision_recall_f1_overlap(offset_ratio=None)", p1[:3], p2[:3], case)
    n1 = len(ctx.call(transcription.match_notes, ai, ap, bi, bp, **k2))
    n2 = len(ctx.call(transcription.match_notes, bi, bp, ai, ap, **k2))
    if n1 != n2:
        raise Violation("match_notes(offset_ratio=None) finds %d pairs, %d with roles exchanged" % (n1, n2))
    return len(case["ref"]) != len(case["est"]) and nt


@st.composite
def many_notes_case(draw):
    return {"seed": draw(st.integers(0, 10 ** 6)), "n": draw(st.sampled_from([150, 520, 700, 1100])), "order": draw(st.sampled_from(["shuffled", "shuffled", "by_track", "sorted"])),
            "onset_tolerance": draw(st.sampled_from([0.05, 0.0625, 0.125])), "strict": draw(st.booleans())}


def pred_many_notes(case, ctx):
    """Hundreds of notes per side, listed in a realistic non-chronological order (track by track, or shuffled)."""
    rs = np.random.RandomState(case["seed"])
    n = case["n"]
    on = rs.randint(0, 16 * 120, n) / 16.0
    a = np.c_[on, on + rs.randint(1, 9, n) / 16.0]
    ap = 440.0 * 2.0 ** (rs.randint(-12, 13, n) / 12.0)
    keep = rs.rand(n) < 0.8
    b = a[keep] + rs.choice([0.0, 0.0, 1 / 32, -1 / 32, 1 / 8], (int(keep.sum()), 1))
    b[:, 0] = np.maximum(b[:, 0], 0.0)
    b[:, 1] = np.maximum(b[:, 1], b[:, 0] + 1 / 32)
    bp = ap[keep] * rs.choice([1.0, 1.0, 2.0 ** (1 / 12)], int(keep.sum()))
    extra = rs.randint(0, 16 * 120, n // 10) / 16.0
    b = np.r_[b, np.c_[extra, extra + 0.25]]
    bp = np.r_[bp, np.full(len(extra), 330.0)]
    if case["order"] == "shuffled":
        ka, kb = rs.permutation(len(a)), rs.permutation(len(b))
    elif case["order"] == "by_track":      # low notes first, then high notes, each in time order
        ka = np.lexsort((a[:, 0], ap > 440.0))
        kb = np.lexsort((b[:, 0], bp > 440.0))
    else:
        ka, kb = np.argsort(a[:, 0], kind="stable"), np.argsort(b[:, 0], kind="stable")
    a, ap, b, bp = a[ka], ap[ka], b[kb], bp[kb]
    kw = dict(onset_tolerance=case["onset_tolerance"], strict=case["strict"])
    nt = _swap3("onset_precision_recall_f1 (%d x %d notes, %s)" % (len(a), len(b), case["order"]), ctx.call(transcription.onset_precision_recall_f1, a, b, **kw),
                ctx.call(transcription.onset_precision_recall_f1, b, a, **kw), {k: v for k, v in case.items()})
    p1 = ctx.call(transcription.precision_recall_f1_overlap, a, ap, b, bp, offset_ratio=None, **kw)
    p2 = ctx.call(transcription.precision_recall_f1_overlap, b, bp, a, ap, offset_ratio=None, **kw)
    nt |= _swap3("precision_recall_f1_overlap(offset_ratio=None) (%d x %d notes, %s)" % (len(a), len(b), case["order"]), p1[:3], p2[:3], dict(case))
    ctx.event("order:" + case["order"])
    if len(a) * len(b) > 2 ** 18:
        ctx.event("more_than_2^18_note_pairs")
    return nt and case["order"] != "sorted" and n >= 520


def pred_pattern(case, ctx):
    a, b = R.tuples(case["ref"]), R.tuples(case["est"])
    nt = _swap3("establishment_FPR", ctx.call(pattern.establishment_FPR, a, b), ctx.call(pattern.establishment_FPR, b, a), case, "fpr")
    for th in (0.5, case["thres"]):
        nt |= _swap3("occurrence_FPR(thres=%r)" % th, ctx.call(pattern.occurrence_FPR, a, b, thres=th), ctx.call(pattern.occurrence_FPR, b, a, thres=th), case, "fpr")
    nt |= _swap3("three_layer_FPR", ctx.call(pattern.three_layer_FPR, a, b), ctx.call(pattern.three_layer_FPR, b, a), case, "fpr")
    return len(a) != len(b) and nt


@st.composite
def hier_case(draw):
    T = draw(st.integers(4, 32)) / 4
    ri, rl = draw(gs.hierarchy(T))
    ei, el = draw(gs.hierarchy(T))
    return {"a": {"iv": ri, "lab": rl}, "b": {"iv": ei, "lab": el}, "frame_size": draw(st.sampled_from([0.25, 0.5, 1.0])),
            "window": draw(st.sampled_from([None, 1.0, 2.0, 15.0])), "transitive": draw(st.booleans()), "beta": draw(st.sampled_from([1.0, 1.0, 0.5, 2.0]))}


def pred_hierarchy(case, ctx):
    a = [_a(l).reshape(-1, 2) for l in case["a"]["iv"]]
    b = [_a(l).reshape(-1, 2) for l in case["b"]["iv"]]
    fs, w, tr = case["frame_size"], case["window"], case["transitive"]
    if w is not None and w < fs:
        w = fs
    be = case["beta"]
    nt = _swap3("tmeasure", ctx.call(hierarchy.tmeasure, a, b, transitive=tr, window=w, frame_size=fs, beta=be),
                ctx.call(hierarchy.tmeasure, b, a, transitive=tr, window=w, frame_size=fs, beta=1.0 / be), case)
    nt |= _swap3("lmeasure", ctx.call(hierarchy.lmeasure, a, case["a"]["lab"], b, case["b"]["lab"], frame_size=fs, beta=be),
                 ctx.call(hierarchy.lmeasure, b, case["b"]["lab"], a, case["a"]["lab"], frame_size=fs, beta=1.0 / be), case)
    return len(a) != len(b) and nt


SUBPROPS = [
    SubProp("beat_onset", pred_events, strategy=events_case, n=(1500, 30000), shards=(2, 8), floor=0.15, rule="NT = |a| != |b| and P != R"),
    SubProp("segment_chordseg", pred_segment, strategy=gs.segmentation_pair, n=(800, 20000), shards=(4, 8), floor=0.15,
            rule="boundary detection/deviation (trim on/off), pairwise, Rand, ARI, MI/AMI/NMI, NCE, V-measure, chord over/under-segmentation; NT = different numbers of segments and some P != R"),
    SubProp("boundaries_different_spans", pred_boundary_span, strategy=boundary_span_case, n=(800, 20000), shards=(2, 8), floor=0.15,
            rule="segment.detection / deviation on annotations whose first start and last end differ, trim on/off; NT = different numbers of segments and P != R"),
    SubProp("multipitch", pred_multipitch, strategy=multipitch_case, n=(800, 20000), shards=(2, 8), floor=0.15, rule="same time base; NT = different pitch counts and P != R"),
    SubProp("transcription", pred_transcription, strategy=gt.notes_case, n=(1000, 25000), shards=(2, 8), floor=0.15,
            rule="onset-only and offset_ratio=None matching; NT = different note counts and P != R"),
    SubProp("transcription_many_notes", pred_many_notes, strategy=many_notes_case, n=(30, 500), shards=(8, 16), floor=0.3,
            rule="150..1100 notes per side listed track by track or shuffled (data a pure function of a drawn integer seed); onset-only and offset_ratio=None scores with roles exchanged; "
                 "NT = >= 520 notes, not in onset order, P != R"),
    SubProp("pattern", pred_pattern, strategy=gt.pattern_case, n=(800, 20000), shards=(4, 8), floor=0.15, rule="establishment, occurrence, three-layer; NT = different pattern counts and P != R"),
    SubProp("hierarchy", pred_hierarchy, strategy=hier_case, n=(300, 6000), shards=(4, 8), floor=0.1, rule="T- and L-measures; NT = different numbers of levels and P != R"),
]
