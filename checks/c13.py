"""C13 -- interval pre-processing preserves the annotation it re-expresses."""
import math
from fractions import Fraction as F

import numpy as np
from hypothesis import strategies as st

from vlib.runner import SubProp, Violation

from mir_eval import util

PROPERTY_ID = "C13"
SCALE = (3, 4)   # budget multiplier (quick, thorough) applied to the n=(...) of every generated sub-property
LEVEL = "exploration"
RULE = ("labeled interval arrays on a dyadic lattice (contiguous or with gaps), crop points drawn from a candidate set that makes "
        "coincidences with boundaries likely; sample grids containing boundaries, duplicates and outside points; "
        "non-trivial = a crop point equals an input boundary or lies strictly inside an interval (adjust_*), the two annotations "
        "have different interior boundaries (merge), a sample on a shared boundary or outside all intervals (interpolate); distinct by SHA-1")
ASSUMPTIONS = [
    "oracle = the point-wise labelling function L(t) evaluated at the midpoints of all elementary intervals; exact because all times are dyadic",
    "inside an internal gap into which a crop point falls both 'no interval' and the fill label are accepted (the statement allows both readings)",
    "sample grids use dyadic sample sizes/offsets, so k*size+offset is exact even through the float32 index array the implementation uses",
]
Q = 4


@st.composite
def labeled_intervals(draw, max_n=5, gaps=None, hi=12):
    n = draw(st.integers(1, max_n))
    gaps = draw(st.booleans()) if gaps is None else gaps
    if gaps:
        pts = sorted(draw(st.lists(st.integers(0, hi * Q), min_size=2 * n, max_size=2 * n, unique=True)))
        iv = [[pts[2 * i] / Q, pts[2 * i + 1] / Q] for i in range(n)]
    else:
        pts = sorted(draw(st.lists(st.integers(0, hi * Q), min_size=n + 1, max_size=n + 1, unique=True)))
        iv = [[pts[i] / Q, pts[i + 1] / Q] for i in range(n)]
    labs = draw(st.lists(st.sampled_from(["a", "b", "c", "A", "x y"]), min_size=n, max_size=n))
    return iv, labs


def _cands(iv):
    lo = min(r[0] for r in iv)
    hi = max(r[1] for r in iv)
    c = {x for r in iv for x in r}
    c |= {0.0, 0.125, max(0.0, lo - 0.5), hi + 0.5, hi + 2.0, (iv[0][0] + iv[0][1]) / 2, (iv[-1][0] + iv[-1][1]) / 2}
    for a, b in zip(iv[:-1], iv[1:]):
        if a[1] < b[0]:
            c.add((a[1] + b[0]) / 2)
    # a hair before / after the first start and the last end (2^-30 ~ 1e-9 s and 2^-17 ~ 8e-6 s: still exact on the lattice, but closer
    # than np.isclose's default tolerance): "almost equal" must not be treated as equal
    for eps in (2.0 ** -30, 2.0 ** -17):
        c |= {hi + eps, hi - eps, lo + eps}
        if lo - eps >= 0:
            c.add(lo - eps)
    return sorted(c)


@st.composite
def adjust_case(draw):
    if draw(st.integers(0, 19)) == 0:
        iv, labs = [], []
        tmin = draw(st.sampled_from([0.0, 1.0]))
        tmax = tmin + draw(st.sampled_from([0.5, 3.0]))
    else:
        iv, labs = draw(labeled_intervals())
        c = _cands(iv)
        tmin = draw(st.one_of(st.none(), st.sampled_from(c)))
        tmax = draw(st.one_of(st.none(), st.sampled_from(c)))
        if tmin is not None and tmax is not None and tmax < tmin:
            tmin, tmax = tmax, tmin
        lo = tmin if tmin is not None else iv[0][0]
        hi = tmax if tmax is not None else iv[-1][1]
        if hi <= lo:          # the requested range must have positive length
            tmax = lo + 0.75
    return {"iv": iv, "labels": labs, "t_min": tmin, "t_max": tmax, "with_labels": draw(st.integers(0, 4)) > 0}


def _lab_at(iv, labs, m):
    return [l for (s, e), l in zip(iv, labs) if s < m < e]


def pred_adjust_intervals(case, ctx):
    iv, labs, tmin, tmax = case["iv"], case["labels"], case["t_min"], case["t_max"]
    arr = np.array(iv, dtype=float).reshape(-1, 2)
    L = list(labs) if case["with_labels"] else None
    given = arr.copy()
    out, ol = ctx.call(util.adjust_intervals, given, L, t_min=tmin, t_max=tmax, start_label="<S>", end_label="<E>")
    out = np.asarray(out, dtype=float)
    # the annotation that was handed in is still the annotation afterwards (it will be adjusted again, to another range)
    if given.tobytes() != arr.tobytes():
        raise Violation("adjust_intervals changed the interval array it was given: %r -> %r (t_min=%r, t_max=%r)" % (arr.tolist(), given.tolist(), tmin, tmax))
    if out.ndim != 2 or out.shape[1] != 2 or len(out) == 0:
        raise Violation("result is not a non-empty n-by-2 array: %r" % (out.tolist(),))
    if not case["with_labels"]:
        ol = ["?"] * len(out)   # what is returned for labels when none were given is not specified
    if len(ol) != len(out):
        raise Violation("%d intervals but %d labels" % (len(out), len(ol)))
    if (out[:, 1] <= out[:, 0]).any():
        raise Violation("interval of non-positive duration in the result %r (labels %r)" % (out.tolist(), ol))
    if not iv:
        if out.tolist() != [[tmin, tmax]] or (case["with_labels"] and ol[0] not in ("<S>", "<E>")):
            raise Violation("empty input should give the single fill interval, got %r %r" % (out.tolist(), ol))
        ctx.event("empty_input")
        return True
    in_lo, in_hi = iv[0][0], iv[-1][1]
    lo = tmin if tmin is not None else in_lo
    hi = tmax if tmax is not None else in_hi
    if out.min() != lo or out.max() != hi or out[0, 0] != lo or out[-1, 1] != hi:
        raise Violation("result spans [%r, %r], expected [%r, %r]: %r" % (out.min(), out.max(), lo, hi, out.tolist()))
    if (np.diff(out[:, 0]) < 0).any():
        raise Violation("result not time-ordered: %r" % (out.tolist(),))
    pts = sorted(set(out.ravel().tolist()) | {x for r in iv for x in r} | {lo, hi})
    outl = out.tolist()
    for a, b in zip(pts[:-1], pts[1:]):
        m = (a + b) / 2
        o = _lab_at(outl, ol, m)
        if not (lo < m < hi):
            if o:
                raise Violation("output covers t=%r outside [%r, %r]" % (m, lo, hi))
            continue
        if len(o) > 1:
            raise Violation("output intervals overlap at t=%r: %r" % (m, outl))
        i = _lab_at(iv, labs, m)
        if i:
            exp = [i] if len(i) == 1 else None
            ok = (len(o) == 1) and (not case["with_labels"] or o == i)
        elif m < in_lo:
            ok = (len(o) == 1) and (not case["with_labels"] or o == ["<S>"])
        elif m > in_hi:
            ok = (len(o) == 1) and (not case["with_labels"] or o == ["<E>"])
        else:
            # internal gap of the input
            gap_lo = max(r[1] for r in iv if r[1] <= m)
            gap_hi = min(r[0] for r in iv if r[0] >= m)
            crop_in_gap = (tmin is not None and gap_lo <= tmin <= gap_hi) or (tmax is not None and gap_lo <= tmax <= gap_hi)
            if crop_in_gap:
                ok = (not o) or (not case["with_labels"]) or o in (["<S>"], ["<E>"])
                ctx.event("crop_point_in_gap")
            else:
                ok = not o
        if not ok:
            raise Violation("at t=%r the input has label %r (span [%r,%r]) but the output has %r; in=%r out=%r %r t_min=%r t_max=%r"
                            % (m, i, in_lo, in_hi, o, iv, outl, ol, tmin, tmax))
    bnd = {x for r in iv for x in r}
    inside = any(s < t < e for t in (tmin, tmax) if t is not None for s, e in iv)
    onb = any(t in bnd for t in (tmin, tmax) if t is not None)
    if onb:
        ctx.event("crop_on_boundary")
    if inside:
        ctx.event("crop_inside_interval")
    if tmin is not None and tmin >= in_hi or tmax is not None and tmax <= in_lo:
        ctx.event("all_outside")
    if any(t is not None and 0 < abs(t - b) < 1e-5 for t in (tmin, tmax) for b in (in_lo, in_hi)):
        ctx.event("crop_point_a_hair_off_the_span")
    return onb or inside


@st.composite
def events_case(draw):
    n = draw(st.integers(1, 7))
    ev = sorted(draw(st.lists(st.integers(0, 12 * Q), min_size=n, max_size=n, unique=True)))
    ev = [k / Q for k in ev]
    c = sorted(set(ev) | {0.0, ev[0] / 2, ev[-1] + 1.0, (ev[0] + ev[-1]) / 2 + 0.125})
    tmin = draw(st.one_of(st.none(), st.sampled_from(c)))
    tmax = draw(st.one_of(st.none(), st.sampled_from(c)))
    if tmin is not None and tmax is not None and tmax < tmin:
        tmin, tmax = tmax, tmin
    return {"events": ev, "t_min": tmin, "t_max": tmax, "with_labels": draw(st.booleans())}


def pred_adjust_events(case, ctx):
    ev, tmin, tmax = case["events"], case["t_min"], case["t_max"]
    lo = tmin if tmin is not None else ev[0]
    hi = tmax if tmax is not None else ev[-1]
    kept = [e for e in ev if lo <= e <= hi]
    if not kept:
        ctx.skip("no event inside the range (behaviour not specified)")
        return False
    labs = ["e%d" % i for i in range(len(ev))] if case["with_labels"] else None
    out, ol = ctx.call(util.adjust_events, np.array(ev, dtype=float), list(labs) if labs else None, t_min=tmin, t_max=tmax, label_prefix="##")
    exp = list(kept)
    expl = [l for e, l in zip(ev, labs)] if labs else None
    if labs:
        expl = [l for e, l in zip(ev, labs) if lo <= e <= hi]
    if exp[0] > lo:
        exp.insert(0, lo)
        if labs:
            expl.insert(0, "##T_MIN")
    if exp[-1] < hi:
        exp.append(hi)
        if labs:
            expl.append("##T_MAX")
    if list(np.asarray(out, dtype=float)) != exp:
        raise Violation("adjust_events(%r, t_min=%r, t_max=%r) -> %r, expected %r" % (ev, tmin, tmax, list(out), exp))
    if labs and list(ol) != expl:
        raise Violation("adjust_events labels %r, expected %r" % (ol, expl))
    if not labs and ol is not None:
        raise Violation("labels=None in, %r out" % (ol,))
    return (tmin in ev) or (tmax in ev) or len(kept) < len(ev)


# ------------------------------------------------------------------ merge

@st.composite
def merge_case(draw):
    t0 = draw(st.integers(0, 8)) / Q
    T = t0 + draw(st.integers(1, 10 * Q)) / Q

    def part():
        k0, k1 = int(t0 * Q), int(T * Q)
        cuts = sorted(draw(st.lists(st.integers(k0 + 1, k1 - 1), max_size=5, unique=True))) if k1 - k0 > 1 else []
        b = [k0] + cuts + [k1]
        iv = [[b[i] / Q, b[i + 1] / Q] for i in range(len(b) - 1)]
        labs = draw(st.lists(st.sampled_from(["a", "b", "c", "N", "C:maj"]), min_size=len(iv), max_size=len(iv)))
        return iv, labs
    x, xl = part()
    y, yl = part()
    mis = draw(st.sampled_from([None, None, None, "end", "start"]))
    return {"x": x, "xl": xl, "y": y, "yl": yl, "misalign": mis}


def pred_merge(case, ctx):
    x, xl, y, yl = case["x"], case["xl"], case["y"], case["yl"]
    xa, ya = np.array(x, dtype=float), np.array(y, dtype=float)
    if case["misalign"]:
        y2 = ya.copy()
        if case["misalign"] == "end":
            y2[-1, 1] += 0.5
        else:
            y2[0, 0] -= 0.125 if y2[0, 0] >= 0.125 else -0.0625
        try:
            util.merge_labeled_intervals(xa, list(xl), y2, list(yl))
        except ValueError:
            ctx.event("misaligned_rejected")
            return True
        except Exception as e:
            raise Violation("misaligned annotations raise %s instead of ValueError" % type(e).__name__)
        raise Violation("misaligned annotations accepted: x=%r y=%r" % (x, y2.tolist()))
    iv, a, b = ctx.call(util.merge_labeled_intervals, xa, list(xl), ya, list(yl))
    iv = np.asarray(iv, dtype=float)
    bs = sorted({t for r in x for t in r} | {t for r in y for t in r})
    exp = [[p, q] for p, q in zip(bs[:-1], bs[1:])]
    if iv.tolist() != exp:
        raise Violation("merged intervals %r are not the common refinement %r" % (iv.tolist(), exp))
    if len(a) != len(exp) or len(b) != len(exp):
        raise Violation("label lists have lengths %d,%d for %d intervals" % (len(a), len(b), len(exp)))
    tot = sum(F(q) - F(p) for p, q in iv.tolist())
    if tot != F(x[-1][1]) - F(x[0][0]):
        raise Violation("total duration %s not conserved (%s)" % (tot, F(x[-1][1]) - F(x[0][0])))
    for (s, e), la, lb in zip(iv.tolist(), a, b):
        m = (s + e) / 2
        if [la] != _lab_at(x, xl, m) or [lb] != _lab_at(y, yl, m):
            raise Violation("interval [%r,%r] carries (%r,%r) but the annotations have (%r,%r) there" % (s, e, la, lb, _lab_at(x, xl, m), _lab_at(y, yl, m)))
    xi = {r[0] for r in x[1:]}
    yi = {r[0] for r in y[1:]}
    return bool(xi - yi) and bool(yi - xi)


# ------------------------------------------------------------ interpolate / samples

@st.composite
def interp_case(draw):
    iv, labs = draw(labeled_intervals(max_n=5, hi=8))
    labs = ["L%d" % i for i in range(len(iv))] if draw(st.booleans()) else labs
    bnd = sorted({t for r in iv for t in r})
    pts = draw(st.lists(st.one_of(st.sampled_from(bnd), st.integers(-8, 8 * 8 + 16).map(lambda k: k / 8)), max_size=10))
    unsorted = draw(st.integers(0, 9)) == 0
    if not unsorted:
        pts = sorted(pts)
    # the fill value: a word no label uses, or (as with 'N' for "no chord") a word that some interval carries as its label, or None / a number
    fill = draw(st.sampled_from(["<F>", "<F>", labs[draw(st.integers(0, len(labs) - 1))], None, 0]))
    return {"iv": iv, "labels": labs, "points": pts, "fill": fill,
            "sample_size": draw(st.sampled_from([0.125, 0.25, 0.5, 0.75, 1.0, 1.5])), "offset": draw(st.sampled_from([0.0, 0.0, 0.125, 0.25]))}


def _expected_label(iv, labs, p, fill):
    lab = fill
    for (s, e), l in zip(iv, labs):
        if s <= p <= e:
            lab = l          # later interval wins on a shared boundary
    return lab


def pred_interpolate(case, ctx):
    iv, labs, pts = case["iv"], case["labels"], case["points"]
    FILL = case.get("fill", "<F>")
    if FILL in labs:
        ctx.event("fill_value_is_also_a_label")
    arr = np.array(iv, dtype=float)
    is_sorted = all(a <= b for a, b in zip(pts[:-1], pts[1:]))
    if not is_sorted:
        try:
            util.interpolate_intervals(arr, list(labs), list(pts), fill_value=FILL)
        except ValueError:
            ctx.event("unsorted_rejected")
            return True
        except Exception as e:
            raise Violation("unsorted time points raise %s instead of ValueError" % type(e).__name__)
        raise Violation("unsorted time points accepted: %r" % (pts,))
    got = ctx.call(util.interpolate_intervals, arr, list(labs), np.array(pts, dtype=float), fill_value=FILL)
    exp = [_expected_label(iv, labs, p, FILL) for p in pts]
    if list(got) != exp:
        raise Violation("interpolate_intervals(%r, %r, %r) -> %r, expected %r" % (iv, labs, pts, got, exp))
    # samples
    fs, off = case["sample_size"], case["offset"]
    ts, ls = ctx.call(util.intervals_to_samples, arr, list(labs), offset=off, sample_size=fs, fill_value=FILL)
    n = int(math.floor(F(max(r[1] for r in iv)) / F(fs)))
    ets = [k * fs + off for k in range(n)]
    if [float(t) for t in ts] != ets:
        raise Violation("sample times %r, expected k*%r+%r for k<%d" % (list(ts), fs, off, n))
    exps = [_expected_label(iv, labs, p, FILL) for p in ets]
    if list(ls) != exps:
        raise Violation("intervals_to_samples labels %r, expected %r (intervals %r, size %r, offset %r)" % (ls, exps, iv, fs, off))
    shared = {a[1] for a, b in zip(iv[:-1], iv[1:]) if a[1] == b[0]}
    allp = list(pts) + ets
    on_shared = any(p in shared for p in allp)
    outside = any(_expected_label(iv, labs, p, None) is None for p in allp)
    if on_shared:
        ctx.event("sample_on_shared_boundary")
    if outside:
        ctx.event("sample_outside")
    return on_shared or outside


# ------------------------------------------------------------ boundaries <-> intervals

@st.composite
def bounds_case(draw):
    q = draw(st.sampled_from([4, 8, 1000, 100000]))
    n = draw(st.integers(2, 9))
    ks = sorted(draw(st.lists(st.integers(0, 30 * q), min_size=n, max_size=n, unique=True)))
    return {"boundaries": [k / q for k in ks]}


def pred_bounds(case, ctx):
    b = case["boundaries"]
    ba = np.array(b, dtype=float)
    iv = ctx.call(util.boundaries_to_intervals, ba)
    exp = [[p, q] for p, q in zip(b[:-1], b[1:])]
    if np.asarray(iv).tolist() != exp:
        raise Violation("boundaries_to_intervals(%r) = %r" % (b, np.asarray(iv).tolist()))
    back = ctx.call(util.intervals_to_boundaries, np.asarray(iv))
    if not (len(back) == len(b) and np.all(np.abs(np.asarray(back) - ba) <= 5.0000001e-6)):
        raise Violation("intervals_to_boundaries(boundaries_to_intervals(b)) = %r != b = %r (5-decimal rounding)" % (list(back), b))
    iv2 = ctx.call(util.boundaries_to_intervals, back)
    if np.asarray(iv2).shape != np.asarray(iv).shape or not np.all(np.abs(np.asarray(iv2) - np.asarray(iv)) <= 5.0000001e-6):
        raise Violation("boundaries_to_intervals(intervals_to_boundaries(I)) != I for I=%r" % (exp,))
    rev = b[::-1]
    if all(abs(x - y) <= 1e-8 + 1e-5 * abs(y) for x, y in zip(rev, b)):
        # the library compares with np.allclose: boundaries that differ by less than its tolerance (e.g. 29.99999 and 30.0) are
        # "the same" for it in either order - nothing is claimed about them
        ctx.skip("reversed boundaries are within np.allclose of the sorted ones")
        return False
    try:
        util.boundaries_to_intervals(np.array(rev))
    except ValueError:
        pass
    except Exception as e:
        raise Violation("descending boundaries raise %s" % type(e).__name__)
    else:
        raise Violation("descending boundaries accepted")
    return len(b) >= 3


SUBPROPS = [
    SubProp("adjust_intervals", pred_adjust_intervals, strategy=adjust_case, n=(3000, 60000), shards=(4, 16), floor=0.25,
            rule="NT = a crop point equals an input boundary or lies strictly inside an interval"),
    SubProp("adjust_events", pred_adjust_events, strategy=events_case, n=(1500, 20000), shards=(1, 4), floor=0.3,
            rule="NT = a crop point equals an event or some event is cropped"),
    SubProp("merge_labeled_intervals", pred_merge, strategy=merge_case, n=(2000, 40000), shards=(2, 8), floor=0.3,
            rule="NT = each annotation has an interior boundary the other lacks, or a misaligned pair"),
    SubProp("interpolate_and_samples", pred_interpolate, strategy=interp_case, n=(2000, 40000), shards=(2, 8), floor=0.4,
            rule="NT = a sample exactly on a shared boundary or outside all intervals, or unsorted points"),
    SubProp("boundaries_intervals_inverse", pred_bounds, strategy=bounds_case, n=(1000, 20000), shards=(1, 4), floor=0.5,
            rule="NT = at least 3 boundaries"),
]
