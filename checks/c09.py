"""C09 -- pitch spelling, joint transposition and octave are handled as documented."""
import numpy as np
from hypothesis import strategies as st

from gens import pitch as gp
from gens import registry as R
from gens import segments as gs
from gens import tasks as gt
from oracles import harte as H
from vlib.runner import SubProp, Violation

from mir_eval import chord, key, melody, multipitch, transcription
from checks import c11

PROPERTY_ID = "C09"
SCALE = (3, 3)   # budget multiplier (quick, thorough) applied to the n=(...) of every generated sub-property
LEVEL = "exploration"
RULE = ("key pairs exhaustively (every valid reference/estimate key string) x 12 joint transpositions x sharp/flat spelling of the transposed "
        "tonics; chord label sequences with intervals under enharmonic respelling of roots (C#<->Db, B#<->C, E#<->F, Cb<->B, double accidentals) "
        "and joint transposition by 0..11 semitones re-spelt randomly; melody / multipitch / note inputs under a joint frequency factor (2^k "
        "exactly, or an arbitrary factor with pitch distances kept off the tolerance), estimate-only octave shifts and sign flips of estimated "
        "melody frequencies; non-trivial = non-identity transformation and at least one hit and one miss before it; distinct by SHA-1")
ASSUMPTIONS = ["equality of comparison vectors and evaluate() dicts is exact for chords and keys (discrete encodings)",
               "whole-octave factors are asserted exactly; other factors only on inputs whose pitch distances stay >= 0.5 cent from every tolerance (log2 rounding)",
               "frequencies are kept inside the validated range of each task after the transformation"]
TOL = 1e-9

SHARP = ["C", "C#", "D", "D#", "E", "F", "F#", "G", "G#", "A", "A#", "B"]
FLAT = ["C", "Db", "D", "Eb", "E", "F", "Gb", "G", "Ab", "A", "Bb", "B"]
NAT = {"C": 0, "D": 2, "E": 4, "F": 5, "G": 7, "A": 9, "B": 11}
# all spellings of each pitch class with up to two accidentals (documented chord grammar allows any number)
SPELL = {pc: [n + a for n in "CDEFGAB" for a in ("", "b", "#", "bb", "##") if (NAT[n] + a.count("#") - a.count("b")) % 12 == pc] for pc in range(12)}


def _a(x):
    return np.asarray(x, dtype=float)


# ------------------------------------------------------------------ keys (exhaustive)

def enum_keys(tier, shard, nshards):
    from checks.c04 import all_keys
    for i, r in enumerate(all_keys()):
        if i % nshards == shard:
            yield {"ref": r}


def _tr_key(k, t, flat):
    if k.lower() == "x":
        return k
    tonic, mode = k.split()
    pc = (H.NATURAL[tonic[0].upper()] + tonic.count("#") - tonic[1:].count("b")) % 12
    name = (FLAT if flat else SHARP)[(pc + t) % 12]
    return "%s %s" % (name.lower() if tonic[0].islower() else name, mode)


def pred_keys(case, ctx):
    from checks.c04 import all_keys
    r = case["ref"]
    nt = False
    for e in all_keys():
        base = ctx.call(key.weighted_score, r, e)
        for t in range(12):
            for fr in (False, True):
                for fe in (False, True):
                    r2, e2 = _tr_key(r, t, fr), _tr_key(e, t, fe)
                    v = ctx.call(key.weighted_score, r2, e2)
                    if v != base:
                        raise Violation("key.weighted_score(%r, %r) = %r but (%r, %r) (transposed by %d, respelt) = %r" % (r, e, base, r2, e2, t, v))
                    ctx.events["key_pair_transpositions"] += 1
        nt = nt or 0 < base < 1
    return nt


# ------------------------------------------------------------------ chords

def _respell_label(lab, t, choice):
    """transpose the root of a Harte label by t semitones and spell it with spelling number `choice`"""
    if lab in ("N", "X"):
        return lab
    i = 1
    while i < len(lab) and lab[i] in "b#":
        i += 1
    root, rest = lab[:i], lab[i:]
    pc = (NAT[root[0]] + root.count("#") - root[1:].count("b")) % 12
    sp = SPELL[(pc + t) % 12]
    return sp[choice % len(sp)] + rest


@st.composite
def chord_case(draw):
    c = draw(R.chord_case())
    pool = c11.pool()
    if draw(st.booleans()):
        # richer vocabulary from the C11 pool
        c["ref"]["lab"] = [draw(st.sampled_from(pool)) for _ in c["ref"]["lab"]]
        n_est = len(c["est"]["lab"])
        cyc = [c["ref"]["lab"][i % len(c["ref"]["lab"])] for i in range(n_est)]
        c["est"]["lab"] = [l if draw(st.integers(0, 2)) == 0 else draw(st.sampled_from(pool)) for l in cyc]
    c["t"] = draw(st.integers(0, 11))
    c["rsp"] = draw(st.lists(st.integers(0, 5), min_size=len(c["ref"]["lab"]), max_size=len(c["ref"]["lab"])))
    c["esp"] = draw(st.lists(st.integers(0, 5), min_size=len(c["est"]["lab"]), max_size=len(c["est"]["lab"])))
    return c


def pred_chord(case, ctx):
    args, _ = R.build("chord", case)
    ri, rl, ei, el = args
    t = case["t"]
    rl2 = [_respell_label(l, t, k) for l, k in zip(rl, case["rsp"])]
    el2 = [_respell_label(l, t, k) for l, k in zip(el, case["esp"])]
    s0 = ctx.call(chord.evaluate, ri, rl, ei, el)
    s1 = ctx.call(chord.evaluate, ri, rl2, ei, el2)
    for k in s0:
        if not abs(float(s0[k]) - float(s1[k])) <= TOL:
            raise Violation("chord.evaluate[%r] changes from %r to %r under joint transposition by %d with respelling; %r -> %r, %r -> %r" % (k, s0[k], s1[k], t, rl, rl2, el, el2))
    # comparison vectors on equal-length label lists
    n = min(len(rl), len(el))
    if n:
        for f in c11.FNS:
            v0 = ctx.call(getattr(chord, f), rl[:n], el[:n])
            v1 = ctx.call(getattr(chord, f), rl2[:n], el2[:n])
            if not np.array_equal(np.asarray(v0), np.asarray(v1)):
                raise Violation("chord.%s changes under joint transposition by %d / respelling: %r vs %r for %r,%r -> %r,%r" % (f, t, list(v0), list(v1), rl[:n], el[:n], rl2[:n], el2[:n]))
    changed = rl2 != rl or el2 != el
    vals = [float(v) for k, v in s0.items() if k not in ("underseg", "overseg", "seg")]
    return changed and any(0 < v < 1 for v in vals)


# ------------------------------------------------------------------ frequencies

FACTORS = [2.0, 0.5, 4.0, 2 ** (1 / 12), 1.5, 0.8, 1.0]


@st.composite
def melody_case(draw):
    c = draw(gt.melody_case(allow_params=False))
    c["factor"] = draw(st.sampled_from(FACTORS))
    c["octaves"] = [draw(st.sampled_from([0, 0, 1, -1, 2])) for _ in c["est_freq"]]
    c["flip"] = [draw(st.booleans()) for _ in c["est_freq"]]
    c["mel_kw"] = R.subset(draw, R.MEL_KW) if draw(st.booleans()) else {}
    if draw(st.integers(0, 3)) == 0:
        c["mel_kw"]["base_frequency"] = 300.0      # a base INSIDE the pitch range: cents of lower pitches are negative
    return c


def _mel_adjacent(ctx, rt, rf, et, ef, tol=50.0, **pre):
    """some compared frame pair lies within 1e-6 cent of the tolerance (raw or modulo octave) on the arrays actually compared"""
    rv, rc, ev, ec = ctx.call(melody.to_cent_voicing, rt, rf, et, ef, **pre)
    for r, e in zip(rc, ec):
        if r != 0 and e != 0:
            d = abs(r - e)
            dm = abs(d - 1200 * np.floor(d / 1200 + 0.5))
            if abs(d - tol) < 1e-6 or abs(dm - tol) < 1e-6:
                return True
    return False


def _on_base(ctx, rt, rf, et, ef, pre):
    """some frequency handed to mir_eval equals base_frequency exactly: it converts to 0 cents, which the resampler and the metrics read
    as 'no frequency' (KF-13).  Interpolation happens on cents and cannot create a 0 between two non-zero values, so looking at the
    inputs is enough."""
    base = pre.get("base_frequency", 10.0)
    if np.any(np.abs(rf) == base) or np.any(np.abs(ef) == base):
        return True
    # with a base inside the pitch range an interpolated value can also land on exactly 0 cents (between -x and +x): converting once
    # more with the base two octaves lower leaves only the real zeros at 0
    _, rc, _, ec = ctx.call(melody.to_cent_voicing, rt, rf, et, ef, **pre)
    _, rc2, _, ec2 = ctx.call(melody.to_cent_voicing, rt, rf, et, ef, **dict(pre, base_frequency=base / 4.0))
    return bool(np.any((rc == 0) & (rc2 != 0)) or np.any((ec == 0) & (ec2 != 0)))


KF13 = "c09.melody:frequency_equal_to_base_frequency_reads_as_no_frequency"


def pred_melody(case, ctx):
    rt, rf, et, ef = _a(case["ref_time"]), _a(case["ref_freq"]), _a(case["est_time"]), _a(case["est_freq"])
    kw = dict(case.get("mel_kw", {}))
    pre = {k: v for k, v in kw.items() if k in ("hop", "kind", "base_frequency")}
    if _mel_adjacent(ctx, rt, rf, et, ef, tol=float(kw.get("cent_tolerance", 50.0)), **pre):
        ctx.skip("a cent difference within 1e-6 of the tolerance")
        return False
    if kw:
        ctx.event("melody_keywords")
    s0 = ctx.call(melody.evaluate, rt, rf, et, ef, **kw)
    c = case["factor"]
    s1 = ctx.call(melody.evaluate, rt, rf * c, et, ef * c, **kw)
    base0 = _on_base(ctx, rt, rf, et, ef, pre)
    for k in s0:
        if not abs(s0[k] - s1[k]) <= TOL:
            if base0 or _on_base(ctx, rt, rf * c, et, ef * c, pre):
                ctx.known(KF13, "%s %r -> %r under factor %r" % (k, s0[k], s1[k], c))
                return False
            raise Violation("melody %s changes from %r to %r when all frequencies are multiplied by %r; case %r" % (k, s0[k], s1[k], c, case))
    # estimate-only whole-octave shifts: raw chroma accuracy unchanged (octave errors are what chroma accuracy forgives).
    # Only on a common time base: interpolating between two differently shifted samples is not an octave shift.
    same_base = len(rt) == len(et) and bool(np.allclose(rt, et)) and "hop" not in kw
    octs = case["octaves"] if same_base else [case["octaves"][0]] * len(case["octaves"])
    ef2 = ef * np.array([2.0 ** o for o in octs])
    s2 = ctx.call(melody.evaluate, rt, rf, et, ef2, **kw)
    if not abs(s0["Raw Chroma Accuracy"] - s2["Raw Chroma Accuracy"]) <= TOL:
        if base0 or _on_base(ctx, rt, rf, et, ef2, pre):
            ctx.known(KF13, "Raw Chroma Accuracy %r -> %r under octave shifts of the estimate" % (s0["Raw Chroma Accuracy"], s2["Raw Chroma Accuracy"]))
            return False
        raise Violation("Raw Chroma Accuracy changes from %r to %r under octave shifts %r of the estimate; case %r" % (s0["Raw Chroma Accuracy"], s2["Raw Chroma Accuracy"], octs, case))
    # negating estimated frequencies (marking them unvoiced) leaves raw pitch / chroma accuracy unchanged
    flips = case["flip"] if same_base else [case["flip"][0]] * len(case["flip"])
    ef3 = ef * np.array([-1.0 if f else 1.0 for f in flips])
    s3 = ctx.call(melody.evaluate, rt, rf, et, ef3, **kw)
    for k in ("Raw Pitch Accuracy", "Raw Chroma Accuracy"):
        if not abs(s0[k] - s3[k]) <= TOL:
            if base0:
                ctx.known(KF13, "%s %r -> %r under negation" % (k, s0[k], s3[k]))
                return False
            raise Violation("%s changes from %r to %r when estimated frequencies are negated; case %r" % (k, s0[k], s3[k], case))
    nonid = c != 1.0 or any(octs) or any(flips)
    return nonid and 0 < s0["Raw Chroma Accuracy"] and s0["Raw Pitch Accuracy"] < 1


@st.composite
def multipitch_case(draw):
    c = draw(gp.multipitch_pair())
    c["semitones"] = draw(st.sampled_from([12, -12, 24, 1, -3, 7, 0]))
    c["oct"] = [[draw(st.sampled_from([0, 0, 12, -12])) for _ in f] for f in c["est_freqs"]]
    return c


def _in_range(frames, lo=17 * 100, hi=110 * 100):
    return all(lo <= m <= hi for f in frames for m in f)


def pred_multipitch(case, ctx):
    rt, et, w = _a(case["ref_time"]), _a(case["est_time"]), case["window"]
    rfm, efm = case["ref_freqs"], case["est_freqs"]
    m0 = ctx.call(multipitch.metrics, rt, R.hz_frames(rfm), et, R.hz_frames(efm), window=w)
    st_ = case["semitones"] * 100
    nt = False
    r2 = [[m + st_ for m in f] for f in rfm]
    e2 = [[m + st_ for m in f] for f in efm]
    if _in_range(r2) and _in_range(e2):
        m1 = ctx.call(multipitch.metrics, rt, R.hz_frames(r2), et, R.hz_frames(e2), window=w)
        for i, (x, y) in enumerate(zip(m0, m1)):
            if not abs(x - y) <= TOL:
                raise Violation("multipitch score %d changes from %r to %r when all pitches are transposed by %d semitones; case %r" % (i, x, y, case["semitones"], case))
        nt = st_ != 0
    e3 = [[m + 100 * o for m, o in zip(f, os_)] for f, os_ in zip(efm, case["oct"])]
    if _in_range(e3):
        m2 = ctx.call(multipitch.metrics, rt, R.hz_frames(rfm), et, R.hz_frames(e3), window=w)
        for i in range(7, 14):
            if not abs(m0[i] - m2[i]) <= TOL:
                raise Violation("multipitch chroma score %d changes from %r to %r under estimate-only octave shifts; case %r" % (i, m0[i], m2[i], case))
        nt = nt or any(o for os_ in case["oct"] for o in os_)
    return nt and 0 < m0[0] < 1


@st.composite
def notes_case(draw):
    c = draw(gt.notes_case())
    c["factor"] = draw(st.sampled_from(FACTORS))
    return c


def pred_notes(case, ctx):
    from checks.c05 import _arrs, note_feasibility
    ri, rp, _ = _arrs(case["ref"])
    ei, ep, _ = _arrs(case["est"])
    c = case["factor"]
    kw = dict(onset_tolerance=case["onset_tolerance"], pitch_tolerance=case["pitch_tolerance"], offset_min_tolerance=case["offset_min_tolerance"], strict=case["strict"])
    if case["offset_ratio"] is not None:
        kw["offset_ratio"] = case["offset_ratio"]
    _, adjacent = note_feasibility(case["ref"], case["est"], case)
    # pitch distances exactly on the tolerance are not asserted (log2 rounding flips at octave boundaries)
    pt = case["pitch_tolerance"]
    near = any(abs(abs(1200 * np.log2(a[2] / b[2])) - pt) < 0.5 for a in case["ref"] for b in case["est"])
    if near:
        ctx.skip("a pitch distance within 0.5 cent of the tolerance")
        return False
    s0 = ctx.call(transcription.evaluate, ri, rp, ei, ep, **kw)
    s1 = ctx.call(transcription.evaluate, ri, rp * c, ei, ep * c, **kw)
    for k in s0:
        if "Overlap" in k:
            continue
        if not abs(s0[k] - s1[k]) <= TOL:
            raise Violation("transcription %s changes from %r to %r when all pitches are multiplied by %r; case %r" % (k, s0[k], s1[k], c, case))
    return c != 1.0 and 0 < s0["Precision_no_offset"] < 1


SUBPROPS = [
    SubProp("key_pairs_transposed_exhaustive", pred_keys, enum=enum_keys, shards=(8, 16), exhaustive=True,
            rule="every key pair x 12 transpositions x 4 spellings (pair count in classes); NT per reference with a partial-credit pair"),
    SubProp("chord_respelling_transposition", pred_chord, strategy=chord_case, n=(500, 12000), shards=(4, 8), floor=0.15,
            rule="chord.evaluate and all 12 comparison vectors; NT = labels changed and some score strictly between 0 and 1"),
    SubProp("melody_factor_octave_sign", pred_melody, strategy=melody_case, n=(800, 20000), shards=(2, 8), floor=0.1,
            rule="joint factor, estimate octave shifts, sign flips; NT = non-identity transformation with a hit and a miss"),
    SubProp("multipitch_transposition_octave", pred_multipitch, strategy=multipitch_case, n=(700, 15000), shards=(2, 8), floor=0.1,
            rule="joint transposition and estimate-only octave shifts (chroma scores); NT = non-identity and 0 < precision < 1"),
    SubProp("transcription_factor", pred_notes, strategy=notes_case, n=(800, 20000), shards=(2, 8), floor=0.1,
            rule="joint pitch factor; NT = factor != 1 and 0 < precision < 1"),
]
