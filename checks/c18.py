"""C18 -- multipitch error accounting is exhaustive and consistent."""
from fractions import Fraction as F

import numpy as np
from hypothesis import strategies as st

from gens import pitch as gp
from oracles import multipitch as om
from vlib.runner import SubProp, Violation

from mir_eval import multipitch

PROPERTY_ID = "C18"
SCALE = (3, 8)   # budget multiplier (quick, thorough) applied to the n=(...) of every generated sub-property
LEVEL = "exploration"
RULE = ("ragged (time, frequency-list) pairs: 0-8 frames of 0-4 pitches on an exact MIDI lattice (integer semitones + offsets chosen so that "
        "no distance, also modulo 12, equals a tolerance), estimates derived from the reference (kept / detuned / octave-shifted / dropped / "
        "extra) or independent, same or different time bases (different hop and start, shorter/longer range), window in {0.25, 0.3, 0.5, "
        "0.75}; one in eight pairs is the same frame sequence stamped 1/16 or 1/8 s early or late; non-trivial = a frame with 0 < TP < min(n_ref, n_est), a chroma gain, or a differing time base with at least one "
        "reference time outside the estimate's range or on an exact tie; distinct by SHA-1")
ASSUMPTIONS = [
    "oracle computes MIDI numbers as exact rationals and matches by brute force (/verif/oracles/multipitch.py); Hz given to mir_eval are 440*2^((m-69)/12)",
    "on an exact tie between two estimate frames either neighbour is accepted",
    "time bases that np.allclose would call equal are either identical or differ by >= 1/16 s (lattice) / by the different hops of the real-world grids, so 'differs' is unambiguous",
]


def _hz(frames):
    return [np.array([gp.midi_to_hz(m) for m in fr], dtype=float) for fr in frames]


def _rat(frames):
    return [[F(m, 100) for m in fr] for fr in frames]


def pred_metrics(case, ctx):
    rt, et, w = case["ref_time"], case["est_time"], case["window"]
    rf, ef = case["ref_freqs"], case["est_freqs"]
    W = F(repr(w))
    rta, eta = np.array(rt, dtype=float), np.array(et, dtype=float)
    out = ctx.call(multipitch.metrics, rta, _hz(rf), eta, _hz(ef), window=w)
    if len(out) != 14:
        raise Violation("metrics returned %d values" % len(out))
    vals = dict(zip(om.KEYS, [float(v) for v in out]))
    for pre in ("", "chroma_"):
        p, r, a = vals[pre + "precision"], vals[pre + "recall"], vals[pre + "accuracy"]
        es, em, ef_, etot = vals[pre + "e_sub"], vals[pre + "e_miss"], vals[pre + "e_fa"], vals[pre + "e_tot"]
        for nm, v in (("precision", p), ("recall", r), ("accuracy", a), ("e_sub", es), ("e_miss", em), ("e_fa", ef_), ("e_tot", etot)):
            if not (np.isfinite(v) and v >= -1e-12):
                raise Violation("%s%s = %r is negative or not finite" % (pre, nm, v))
        if not abs(etot - (es + em + ef_)) <= 1e-12 * max(1.0, etot):
            raise Violation("%stotal error %r != substitution %r + miss %r + false alarm %r" % (pre, etot, es, em, ef_))
        if a > min(p, r) + 1e-12:
            raise Violation("%saccuracy %r exceeds min(precision %r, recall %r)" % (pre, a, p, r))
    # resampling model
    # documented rule: the estimate is resampled unless the time bases have the same size and are np.allclose
    same = (len(rt) == len(et)) and all(abs(e_ - r_) <= 1e-8 + 1e-5 * abs(r_) for e_, r_ in zip(et, rt))
    if same and rt != et:
        ctx.event("time_bases_equal_up_to_rounding")
    tie = outside = False
    if same:
        choices = [[ef]]
    else:
        cand = om.resample_candidates(et, rt)
        outside = any(c is None for c in cand)
        tie = any(c is not None and len(c) > 1 for c in cand)
        # enumerate tie resolutions (at most 2 per frame; bounded)
        seqs = [[]]
        for c in cand:
            opts = [None] if c is None else c
            seqs = [s + [o] for s in seqs for o in opts][:64]
        choices = [[[[] if i is None else ef[i] for i in s]] for s in seqs]
    ok = False
    first_diff = None
    rr = _rat(rf)
    if any(om.near_threshold(a, b, W) for a in rr for b in _rat(ef)):
        ctx.skip("pitch distance within 1e-6 semitone of the window")
        return False
    for (efr,) in choices:
        o = om.scores(rr, _rat(efr), W)
        diff = [(k, vals[k], float(o[k])) for k in om.KEYS if not abs(vals[k] - float(o[k])) <= 1e-9]
        if not diff:
            ok = True
            model = o
            break
        first_diff = first_diff or diff
    if not ok:
        raise Violation("metrics differ from the accounting definition on the (nearest-frame resampled) input: %r; case %r" % (first_diff[:4], case))
    # per-frame counts through the public helper
    efr_hz = _hz(efr)
    ref_midi = multipitch.frequencies_to_midi(_hz(rf))
    est_midi = multipitch.frequencies_to_midi(efr_hz)
    tp = ctx.call(multipitch.compute_num_true_positives, ref_midi, est_midi, window=w)
    tpc = ctx.call(multipitch.compute_num_true_positives, multipitch.midi_to_chroma(ref_midi), multipitch.midi_to_chroma(est_midi), window=w, chroma=True)
    nt = False
    for i in range(len(rf)):
        lim = min(len(rf[i]), len(efr[i]))
        if tp[i] > lim or tpc[i] > lim:
            raise Violation("frame %d: %r / %r true positives for %d reference and %d estimated pitches" % (i, tp[i], tpc[i], len(rf[i]), len(efr[i])))
        if tpc[i] < tp[i]:
            raise Violation("frame %d: chroma count %r below raw count %r" % (i, tpc[i], tp[i]))
        if tp[i] != model["tp"][i] or tpc[i] != model["chroma_tp"][i]:
            raise Violation("frame %d: true positives %r/%r, brute force gives %r/%r" % (i, tp[i], tpc[i], model["tp"][i], model["chroma_tp"][i]))
        if 0 < tp[i] < lim or tpc[i] > tp[i]:
            nt = True
    # resample_multipitch itself
    if not same:
        got = ctx.call(multipitch.resample_multipitch, eta, _hz(ef), rta)
        if len(got) != len(rt):
            raise Violation("resample_multipitch returned %d frames for %d target times" % (len(got), len(rt)))
        cand = om.resample_candidates(et, rt)
        for k, (g, c) in enumerate(zip(got, cand)):
            g = np.asarray(g, dtype=float)
            if c is None:
                if g.size:
                    raise Violation("reference time %r is outside the estimate range [%r..] but got frame %r" % (rt[k], et[:1], g.tolist()))
            elif not any(g.tolist() == _hz([ef[i]])[0].tolist() for i in c):
                raise Violation("reference time %r: resampled frame %r is not the nearest estimate frame (candidates %r)" % (rt[k], g.tolist(), c))
        ctx.event("different_timebase")
        if case.get("grid") == "real":
            ctx.event("real_world_time_grids")
        if len(rt) == len(et) and len(rt) >= 2 and all(abs(a - b) < (rt[1] - rt[0]) / 2 for a, b in zip(rt, et)):
            ctx.event("same_frames_shifted_by_less_than_half_a_hop")
        if outside:
            ctx.event("ref_time_outside_est_range")
        if tie:
            ctx.event("exact_tie")
    if not rf or not any(rf):
        ctx.event("empty_reference")
    if not any(efr):
        ctx.event("empty_estimate")
    return nt or (not same and (outside or tie) and bool(rt) and bool(et))


@st.composite
def pair_with_grid(draw):
    """the lattice pair, or the same frames on real-world time grids: hop of 256 samples at 44.1 kHz against 10 ms (the oracle compares
    the float stamps as exact rationals; a 256/44100 stamp never comes closer than 4.5e-7 s to a midpoint of the 10 ms grid)"""
    c = draw(gp.multipitch_pair())
    if draw(st.integers(0, 2)) == 0:
        same = c["ref_time"] == c["est_time"]
        g1, g2 = draw(st.sampled_from([(256 / 44100, 0.01), (0.01, 256 / 44100), (512 / 44100, 0.01)]))
        c["ref_time"] = [round(t * 8) * g1 for t in c["ref_time"]]
        c["est_time"] = [round(t * 8) * (g1 if same else g2) for t in c["est_time"]]
        c["grid"] = "real"
    elif c["ref_time"] == c["est_time"] and c["ref_time"] and draw(st.integers(0, 3)) == 0:
        # the same grid up to floating-point rounding (k*hop vs a running sum, or read back from a text file): the first stamp one ulp
        # late, the last one ulp early.  np.allclose calls these equal, so no resampling may take place.
        et = list(c["est_time"])
        et[0] = float(np.nextafter(et[0], np.inf))
        if len(et) > 1:
            et[-1] = float(np.nextafter(et[-1], -np.inf))
        c["est_time"] = et
        c["grid"] = "ulp"
    return c


SUBPROPS = [
    SubProp("metrics_accounting", pred_metrics, strategy=pair_with_grid, n=(2500, 60000), shards=(4, 16), floor=0.3,
            rule="NT = a frame with 0 < TP < min(n_ref, n_est) or chroma TP > raw TP, or differing time base with an out-of-range time or exact tie"),
]
