"""C10 -- chord labels: total parsing, sound encoding, split/join round trip."""
import numpy as np
from hypothesis import strategies as st

from oracles import harte as H
from vlib.runner import SubProp, Violation

from mir_eval import chord

PROPERTY_ID = "C10"
SCALE = (2, 1)   # budget multiplier (quick, thorough) applied to the n=(...) of every generated sub-property
LEVEL = "exploration"
RULE = ("enumerated: every label derivable from the documented grammar up to the tier's depth bound (roots x 27 shorthand choices x "
        "degree lists of length <= 2 (quick) / <= 3 (thorough) x 11 basses) x reduce_extended_chords x strict_bass_intervals, each "
        "distinct by construction; generated: grammar-random labels with unbounded accidentals/degree lists, single-edit mutants of valid "
        "labels, arbitrary and alphabet-biased text; non-trivial = label with >= 2 of {accidental, shorthand, degree list, bass} or a "
        "rejected string at edit distance 1 from an accepted one (mutants), any string for totality on text")
ASSUMPTIONS = [
    "independent recursive-descent parser/encoder in /verif/oracles/harte.py transcribes the documented Harte syntax and quality tables",
    "labels on which one semitone is both added and omitted are checked structurally only (documentation does not say which wins)",
    "degrees below the root (b1) denote pitch class 11 (mod-12 reading)",
]
ICE = chord.InvalidChordException


def _total(fn, what, s, *a, **k):
    """returns (ok, value): ok False when InvalidChordException; any other exception is a violation."""
    try:
        return True, fn(*a, **k)
    except ICE:
        return False, None
    except Exception as e:  # noqa
        raise Violation("%s(%r) raised %s: %s (only InvalidChordException is allowed)" % (what, s, type(e).__name__, e))


def _norm(enc):
    r, bm, b = enc
    bm = np.asarray(bm)
    if bm.shape != (12,):
        raise Violation("bitmap shape %r" % (bm.shape,))
    return int(r), [int(x) for x in bm], int(b)


def check_label(s, ctx):
    """All clauses of the property on one string.  Returns a small feature dict."""
    try:
        p = H.parse(s)
        acc = True
    except H.Reject:
        p = None
        acc = False
    ok, _ = _total(chord.validate_chord_label, "validate_chord_label", s, s)
    if ok != acc:
        raise Violation("validate_chord_label(%r) %s but the documented grammar %s it"
                        % (s, "accepts" if ok else "rejects", "accepts" if acc else "rejects"))
    encodable = False
    for red in (False, True):
        oks, parts = _total(chord.split, "split", s, s, reduce_extended_chords=red)
        if not acc and oks:
            raise Violation("split(%r) succeeded on a label outside the grammar" % s)
        for strict in (False, True):
            oke, got = _total(chord.encode, "encode", s, s, reduce_extended_chords=red, strict_bass_intervals=strict)
            if not acc:
                if oke:
                    raise Violation("encode(%r) succeeded on a label outside the grammar" % s)
                continue
            try:
                r, bm, b, amb = H.encode(p, red, strict)
                want = (r, bm, b)
            except H.Reject:
                want, amb = None, False
            g = _norm(got) if oke else None
            if p in ("N", "X"):
                sentinel = (-1, [0] * 12, -1) if p == "N" else (-1, [-1] * 12, -1)
                if g != sentinel:
                    raise Violation("encode(%r) = %r, reserved sentinel is %r" % (s, g, sentinel))
                continue
            if g is not None:
                encodable = True
                r_, bm_, b_ = g
                if not (0 <= r_ <= 11 and 0 <= b_ <= 11 and all(x in (0, 1) for x in bm_) and bm_[b_] == 1):
                    raise Violation("encode(%r, reduce=%r, strict=%r) = %r is not (root 0..11, 0/1 bitmap containing the bass, bass 0..11)" % (s, red, strict, g))
            if amb:
                ctx.event("same_semitone_added_and_omitted")
                if (g is None) != (want is None) and want is not None and not strict:
                    raise Violation("encode(%r) raised although the label is encodable" % s)
            elif g != want:
                raise Violation("encode(%r, reduce_extended_chords=%r, strict_bass_intervals=%r) = %r, documented encoding is %r" % (s, red, strict, g, want))
            # split / join round trip
            if g is not None and oks and not strict:
                root_s, qual, degs, bass = parts
                for order in (sorted(degs), sorted(degs, reverse=True)):
                    okj, lab = _total(chord.join, "join", s, root_s, qual, list(order), bass)
                    if not okj:
                        raise Violation("join(*split(%r, reduce=%r)) = join%r is rejected" % (s, red, (root_s, qual, order, bass)))
                    ok2, g2 = _total(chord.encode, "encode", lab, lab, reduce_extended_chords=red, strict_bass_intervals=False)
                    if not ok2 or _norm(g2) != g:
                        raise Violation("round trip: %r -> split -> join -> %r encodes to %r, original encodes to %r (reduce=%r)"
                                        % (s, lab, _norm(g2) if ok2 else None, g, red))
        # encode_many agrees with encode
        okm, many = _total(chord.encode_many, "encode_many", s, [s], reduce_extended_chords=red)
        oke, one = _total(chord.encode, "encode", s, s, reduce_extended_chords=red)
        if okm != oke:
            raise Violation("encode_many([%r]) and encode(%r) disagree on whether the label is encodable" % (s, s))
        if okm:
            m = (int(many[0][0]), [int(x) for x in many[1][0]], int(many[2][0]))
            if m != _norm(one):
                raise Violation("encode_many([%r]) = %r but encode = %r" % (s, m, _norm(one)))
    feats = 0
    if p not in (None, "N", "X"):
        feats = (("b" in s.split(":")[0][1:] or "#" in s.split(":")[0]) + (p["short"] is not None) + (p["degs"] is not None) + (p["bass"] is not None))
    return {"accepted": acc, "encodable": encodable, "features": feats}


# ------------------------------------------------------------------ sub-properties

def enum_labels(tier, shard, nshards):
    return H.enum_labels(tier, shard, nshards)


def pred_enum(s, ctx):
    f = check_label(s, ctx)
    return f["features"] >= 2


_ACC = st.one_of(st.just(""), st.integers(1, 4).map(lambda n: "b" * n), st.integers(1, 4).map(lambda n: "#" * n))
_DEG = st.tuples(_ACC, st.integers(1, 13)).map(lambda t: t[0] + str(t[1]))
_SDEG = st.tuples(st.sampled_from(["", "", "*"]), _DEG).map(lambda t: t[0] + t[1])


@st.composite
def grammar_label(draw):
    if draw(st.integers(0, 30)) == 0:
        return draw(st.sampled_from(["N", "X"]))
    s = draw(st.sampled_from("CDEFGAB")) + draw(_ACC)
    form = draw(st.sampled_from(["bare", "short", "short_degs", "degs"]))
    if form in ("short", "short_degs"):
        s += ":" + draw(st.sampled_from(H.SHORTHANDS))
    if form == "degs":
        s += ":"
    if form in ("short_degs", "degs"):
        s += "(" + ",".join(draw(st.lists(_SDEG, min_size=1, max_size=6))) + ")"
    if draw(st.booleans()):
        s += "/" + draw(_DEG)
    return s


def pred_random(s, ctx):
    f = check_label(s, ctx)
    if not f["accepted"]:
        raise RuntimeError("grammar generator produced a label the oracle parser rejects: %r" % s)
    ctx.event("encodable" if f["encodable"] else "accepted_not_encodable")
    return f["features"] >= 2


TOKENS = list("ABCDEFG") + ["b", "#", ":", "(", ")", ",", "*", "/", "N", "X", "0", "1", "2", "3", "4", "5", "6", "7", "8", "9",
                              "maj", "min", "dim", "aug", "sus2", "sus4", "maj7", "min7", "7", "hdim7", "13", " ", "\n", "m", "M", "c"]


@st.composite
def mutant_label(draw):
    s = draw(grammar_label())
    op = draw(st.sampled_from(["insert", "delete", "replace", "append", "swap"]))
    i = draw(st.integers(0, max(0, len(s) - 1)))
    t = draw(st.sampled_from(TOKENS))
    if op == "insert":
        m = s[:i] + t + s[i:]
    elif op == "delete":
        m = s[:i] + s[i + 1:]
    elif op == "replace":
        m = s[:i] + t + s[i + 1:]
    elif op == "append":
        m = s + t
    else:
        m = s[:i] + s[i + 1:i + 2] + s[i:i + 1] + s[i + 2:]
    return {"base": s, "mutant": m}


def pred_mutant(case, ctx):
    f = check_label(case["mutant"], ctx)
    ctx.event("mutant_accepted" if f["accepted"] else "mutant_rejected")
    return not f["accepted"] or f["features"] >= 2


_ALPHA = st.text(alphabet=list("ABCDEFGNX#b:(),*/0123456789majindugsh \n\t"), max_size=14)


def text_strategy():
    return st.one_of(st.text(max_size=12), _ALPHA, _ALPHA.map(lambda t: "C:" + t), _ALPHA.map(lambda t: "G:maj(" + t))


def pred_text(s, ctx):
    f = check_label(s, ctx)
    ctx.event("accepted" if f["accepted"] else "rejected")
    return True


FIXED = ["", "C:", "C:(", "C:()", "C:maj()", "C/", "C//5", "C:maj/", "c", "H", "Cb#", "C#b", "C:maj(3,)", "C:maj(,3)", "C:(*3)",
         "C(3)", "C:maj7(14)", "C:maj(0)", "C/0", "C/14", "C/*5", "C:maj(**3)", "N:maj", "X/5", "C:MAJ", "C:maj ", " C", "C\n",
         "N\n", "X\n", "C:maj\n", "C:7/b7\n", "C:maj(3)\n", "C\n\n", "\nC", "C:maj\r", "C\x00", "N ", "NN", "NX", "C:aug7", "C:maj11",
         "C:maj11/3", "C:13(*9)", "C:9(*9)", "C:min(*b3,b3)", "C:maj(3,*3)", "Cbbbbbbbbbbbbb", "C:(b1)", "C/b1", "C:maj(13)", "C:maj/13"]


def enum_fixed(tier, shard, nshards):
    return [s for i, s in enumerate(FIXED) if i % nshards == shard]


# ------------------------------------------------------------------ coverage-guided campaign (thorough tier only)

DICT_TOKENS = ["maj", "min", "dim", "aug", "sus2", "sus4", "maj6", "min6", "7", "maj7", "min7", "dim7", "hdim7", "minmaj7", "aug7", "9", "maj9", "min9",
               "11", "maj11", "min11", "13", "maj13", "min13", "(", ")", ",", "*", "/", ":", "b", "#", "bb", "##", "N", "X", "10", "12"]


def enum_atheris(tier, shard, nshards):
    """Runs one libFuzzer campaign per shard (seeded corpus + token dictionary for even shards, empty corpus for odd shards) and yields
    the crashing label if the in-target oracle fired, plus a few corpus entries as ordinary cases.  libFuzzer's -seed pins a campaign
    only approximately; the saved label is the reproducible unit."""
    if tier != "thorough":
        return
    import glob
    import json
    import os
    import shutil
    import subprocess
    import sys
    from vlib.runner import VERIF_ROOT
    if not os.path.isdir(os.path.join(VERIF_ROOT, ".deps", "atheris")):
        subprocess.run([sys.executable, "-m", "pip", "install", "--no-index", "--find-links", "/opt/veriftools/wheels", "--target",
                        os.path.join(VERIF_ROOT, ".deps"), "atheris", "-q"], check=False, capture_output=True)
    if not os.path.isdir(os.path.join(VERIF_ROOT, ".deps", "atheris")):
        yield "C:maj"          # atheris unavailable: the campaign is skipped (reported in classes through the missing counter)
        return
    seed = int(os.environ.get("VERIF_SEED", "1") or 1) * 100 + shard + 1
    work = os.path.join(VERIF_ROOT, ".work", "fuzz_c10_%d_%d" % (os.getpid(), shard))
    shutil.rmtree(work, ignore_errors=True)
    corpus = os.path.join(work, "corpus")
    os.makedirs(corpus)
    args = []
    if shard % 2 == 0:
        for i, lab in enumerate(list(H.enum_labels("quick", shard, 997))[:300] + ["N", "X", "C", "G:7/b7", "A:min(*b3,9)/5"]):
            with open(os.path.join(corpus, "s%04d" % i), "w") as f:
                f.write(lab)
        with open(os.path.join(work, "dict"), "w") as f:
            for t in DICT_TOKENS:
                f.write('"%s"\n' % t)
        args.append("-dict=" + os.path.join(work, "dict"))
    out = os.path.join(work, "result.json")
    runs = int(os.environ.get("VERIF_FUZZ_RUNS", "400000"))
    cmd = [sys.executable, os.path.join(VERIF_ROOT, "checks", "fuzz_chord.py"), out, "-runs=%d" % runs, "-seed=%d" % seed, "-max_len=48",
           "-timeout=30", "-rss_limit_mb=4096", "-print_final_stats=1"] + args + [corpus]
    p_ = subprocess.run(cmd, capture_output=True, text=True, timeout=3000, cwd=work)
    res = json.load(open(out)) if os.path.exists(out) else {"label": None}
    import re
    m = re.search(r"Done (\d+) runs", p_.stderr) or re.search(r"#(\d+)\s+DONE", p_.stderr)
    _FUZZ["executions"] += int(m.group(1)) if m else int(res.get("executions", 0))
    _FUZZ["campaigns"] += 1
    labels = []
    for fpath in sorted(glob.glob(os.path.join(corpus, "*")))[-40:]:
        try:
            labels.append(open(fpath, "rb").read().decode("utf-8"))
        except UnicodeDecodeError:
            pass
    shutil.rmtree(work, ignore_errors=True)
    if res.get("label") is not None:
        yield res["label"]
    for lab in labels:
        yield lab


_FUZZ = {"executions": 0, "campaigns": 0}


def pred_atheris(s, ctx):
    if _FUZZ["campaigns"]:
        ctx.events["atheris_executions"] += _FUZZ["executions"]
        ctx.events["atheris_campaigns"] += _FUZZ["campaigns"]
        _FUZZ["executions"] = _FUZZ["campaigns"] = 0
    f = check_label(s, ctx)
    return f["accepted"]


SUBPROPS = [
    SubProp("atheris_campaign", pred_atheris, enum=enum_atheris, shards=(1, 8), exhaustive=False, min_nt=0, weight=5,
            rule="thorough tier only: libFuzzer campaigns (400k executions each; seeded corpus + token dictionary, and empty corpus) with the differential oracle inside the target; "
                 "the cases counted here are the final corpus entries re-checked, the executions are reported in classes"),
    SubProp("grammar_enumerated", pred_enum, enum=enum_labels, shards=(8, 16), exhaustive=True,
            rule="every derivation up to the depth bound x both flags; NT = >= 2 of {accidental, shorthand, degree list, bass}"),
    SubProp("fixed_edge_strings", pred_text, enum=enum_fixed, shards=(1, 1), exhaustive=True,
            rule="hand-listed edge strings (trailing newline, empty groups, out-of-range degrees ...)"),
    SubProp("grammar_random", pred_random, strategy=grammar_label, n=(3000, 100000), shards=(2, 8), floor=0.5,
            rule="recursive grammar strategy with unbounded accidentals and degree lists; NT = >= 2 features"),
    SubProp("single_edit_mutants", pred_mutant, strategy=mutant_label, n=(4000, 120000), shards=(2, 8), floor=0.4,
            rule="one insert/delete/replace/append/swap on a valid label; NT = rejected mutant (edit distance 1 from accepted) or accepted with >= 2 features"),
    SubProp("arbitrary_text", pred_text, strategy=text_strategy, n=(3000, 100000), shards=(2, 8), floor=0.3,
            rule="unicode text and alphabet-biased text; every string counts (totality)"),
]
