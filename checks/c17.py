"""C17 -- hierarchy T-/L-measures equal the triplet-ranking definition."""
import math
from fractions import Fraction as F

import numpy as np
from hypothesis import strategies as st

from gens import segments as gs
from oracles import clustering as oc
from oracles import hier as oh
from vlib.runner import SubProp, Violation

from mir_eval import hierarchy

PROPERTY_ID = "C17"
SCALE = (3, 8)   # budget multiplier (quick, thorough) applied to the n=(...) of every generated sub-property
LEVEL = "exploration"
RULE = ("pairs of 1-4 level hierarchies (nested or not, labels from 'abAB') over a common span [0,T] on a 1/4 s lattice with <= 40 "
        "frames; window in {None, frame_size, 0.75, 1, 2, 15}, frame_size in {0.25, 0.5, 0.75, 1}, transitive, beta; non-trivial = >= 2 "
        "levels on one side and some T- or L-score strictly between 0 and 1; distinct by SHA-1; plus invalid frame_size/window rejection")
ASSUMPTIONS = [
    "oracle: O(n^3) triple counting from the definition (/verif/oracles/hier.py); frame index = floor(t/frame_size), exact on the lattice",
    "window is the half-open frame range [q-w, q+w) with w = floor(window/frame_size) (convention pinned from the code, documentation silent)",
    "frame sizes are dyadic or 0.75 so that floor(t/frame_size) is exact; decimal frame sizes such as 0.1 are not value-checked",
]


@st.composite
def hier_case(draw):
    fs = draw(st.sampled_from([0.25, 0.5, 0.5, 1.0, 0.75]))
    max_frames = 36
    T = draw(st.one_of(st.integers(1, 8), st.integers(8, int(max_frames * fs * 4)), st.integers(8, int(max_frames * fs * 4)))) / 4
    T = max(T, fs)
    nested = draw(st.booleans())
    ri, rl = draw(gs.hierarchy(T, nested=nested))
    how = draw(st.sampled_from(["indep", "indep", "indep", "same", "prefix", "same_bounds_other_labels"]))
    if how == "indep":
        ei, el = draw(gs.hierarchy(T, nested=nested))
    elif how == "same_bounds_other_labels":
        # identical boundaries at every level, labels drawn afresh: only the label-agreement (L-measure) may differ
        ei = [[list(r) for r in lv] for lv in ri]
        el = [draw(st.lists(st.sampled_from(list("abAB")), min_size=len(lv), max_size=len(lv))) for lv in ri]
    elif how == "same":
        ei, el = [[list(r) for r in lv] for lv in ri], [list(l) for l in rl]
    else:
        k = draw(st.integers(1, len(ri)))
        ei, el = [[list(r) for r in lv] for lv in ri[:k]], [list(l) for l in rl[:k]]
    win = draw(st.sampled_from([None, "fs", 0.75, 1.0, 2.0, 15.0]))
    if win == "fs":
        win = fs
    if win is not None and win < fs:
        win = fs
    return {"ref_iv": ri, "ref_lab": rl, "est_iv": ei, "est_lab": el, "frame_size": fs, "window": win,
            "transitive": draw(st.booleans()), "beta": draw(st.sampled_from([1.0, 1.0, 0.5, 2.0]))}


def _np(h):
    return [np.array(lv, dtype=float) for lv in h]


def _close(name, got, want, case):
    if not (isinstance(got, (float, np.floating)) and abs(got - want) <= 1e-9):
        raise Violation("%s = %r, triplet definition gives %r; case %r" % (name, got, want, case))
    if not (-1e-12 <= got <= 1 + 1e-12):
        raise Violation("%s = %r outside [0, 1]" % (name, got))


def pred_hier(case, ctx):
    fs, win, tr, beta = case["frame_size"], case["window"], case["transitive"], case["beta"]
    T = case["ref_iv"][0][-1][1]
    n = oh.n_frames(T, fs)
    if n < 1:
        ctx.skip("no frame")
        return False
    ri, ei = _np(case["ref_iv"]), _np(case["est_iv"])
    rl, el = [list(l) for l in case["ref_lab"]], [list(l) for l in case["est_lab"]]
    wf = None if win is None else int(math.floor(F(win) / F(fs)))
    R, E = oh.lca(case["ref_iv"], fs), oh.lca(case["est_iv"], fs)
    rec, nq_r = oh.gauc(R, E, tr, wf)
    pre, nq_p = oh.gauc(E, R, tr, wf)
    p, r, f = ctx.call(hierarchy.tmeasure, ri, ei, transitive=tr, window=win, frame_size=fs, beta=beta)
    _close("T-precision", p, pre, case)
    _close("T-recall", r, rec, case)
    _close("T-measure", f, oc.fbeta(pre, rec, beta), case)
    Rm, Em = oh.meet(case["ref_iv"], rl, fs), oh.meet(case["est_iv"], el, fs)
    lrec, _ = oh.gauc(Rm, Em, True, None)
    lpre, _ = oh.gauc(Em, Rm, True, None)
    lp, lr, lf = ctx.call(hierarchy.lmeasure, ri, rl, ei, el, frame_size=fs, beta=beta)
    _close("L-precision", lp, lpre, case)
    _close("L-recall", lr, lrec, case)
    _close("L-measure", lf, oc.fbeta(lpre, lrec, beta), case)
    # evaluate(): same numbers (window keyword passes through; transitive forced per entry)
    kw = {"frame_size": fs, "beta": beta}
    if win is not None:
        kw["window"] = win
        wf_e = wf
    else:
        wf_e = int(math.floor(F(15) / F(fs)))
    sc = ctx.call(hierarchy.evaluate, ri, rl, ei, el, **kw)
    for trans, tag in ((False, "reduced"), (True, "full")):
        rec2, _ = oh.gauc(R, E, trans, wf_e)
        pre2, _ = oh.gauc(E, R, trans, wf_e)
        _close("evaluate T-Precision " + tag, sc["T-Precision " + tag], pre2, case)
        _close("evaluate T-Recall " + tag, sc["T-Recall " + tag], rec2, case)
        _close("evaluate T-Measure " + tag, sc["T-Measure " + tag], oc.fbeta(pre2, rec2, beta), case)
    _close("evaluate L-Precision", sc["L-Precision"], lpre, case)
    _close("evaluate L-Recall", sc["L-Recall"], lrec, case)
    _close("evaluate L-Measure", sc["L-Measure"], oc.fbeta(lpre, lrec, beta), case)
    if beta != 1.0 and lpre != lrec:
        ctx.event("evaluate_L-Measure_with_beta!=1_and_P!=R")
    if nq_r == 0 or nq_p == 0:
        ctx.event("no_query_with_reference_triple(score 0 by convention)")
    if win is not None and win == fs:
        ctx.event("window==frame_size")
    if n == 1:
        ctx.event("single_frame")
    ctx.event("nested" if all(
        {b for r in lo for b in r} <= {b for r in hi for b in r} for lo, hi in zip(case["ref_iv"][:-1], case["ref_iv"][1:])) else "not_nested")
    multi = len(case["ref_iv"]) >= 2 or len(case["est_iv"]) >= 2
    return multi and any(0 < v < 1 for v in (p, r, lp, lr))


@st.composite
def invalid_case(draw):
    c = draw(hier_case())
    c["fault"] = draw(st.sampled_from(["frame_size<=0", "frame_size>window"]))
    return c


def pred_invalid(case, ctx):
    ri, ei = _np(case["ref_iv"]), _np(case["est_iv"])
    rl, el = case["ref_lab"], case["est_lab"]
    if case["fault"] == "frame_size<=0":
        calls = [("tmeasure", lambda: hierarchy.tmeasure(ri, ei, frame_size=0.0)),
                 ("tmeasure", lambda: hierarchy.tmeasure(ri, ei, frame_size=-0.5, window=None)),
                 ("lmeasure", lambda: hierarchy.lmeasure(ri, rl, ei, el, frame_size=0)),
                 ("evaluate", lambda: hierarchy.evaluate(ri, rl, ei, el, frame_size=-1.0))]
    else:
        w = case["frame_size"] / 2
        calls = [("tmeasure", lambda: hierarchy.tmeasure(ri, ei, frame_size=case["frame_size"], window=w)),
                 ("evaluate", lambda: hierarchy.evaluate(ri, rl, ei, el, frame_size=case["frame_size"], window=w))]
    for name, c in calls:
        try:
            c()
        except ValueError:
            continue
        except Exception as e:
            raise Violation("%s with %s raised %s instead of ValueError" % (name, case["fault"], type(e).__name__))
        raise Violation("%s accepted %s" % (name, case["fault"]))
    return True


SUBPROPS = [
    SubProp("t_and_l_measures", pred_hier, strategy=hier_case, n=(600, 12000), shards=(8, 16), floor=0.2,
            rule="NT = >= 2 levels on one side and some T-/L- precision or recall strictly between 0 and 1"),
    SubProp("invalid_frame_size_window", pred_invalid, strategy=invalid_case, n=(60, 600), shards=(1, 2), floor=0.2,
            rule="frame_size <= 0 or frame_size > window must raise ValueError; every case counts"),
]
