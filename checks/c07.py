"""C07 -- looser criteria never lower a score; nested criteria are ordered."""
import numpy as np
from hypothesis import strategies as st

from gens import base as g
from gens import pitch as gp
from gens import registry as R
from gens import segments as gs
from gens import tasks as gt
from vlib.runner import SubProp, Violation

from mir_eval import pattern, alignment, beat, melody, multipitch, onset, segment, tempo, transcription, transcription_velocity

PROPERTY_ID = "C07"
SCALE = (3, 3)   # budget multiplier (quick, thorough) applied to the n=(...) of every generated sub-property
LEVEL = "exploration"
RULE = ("an input, one tolerance axis and an ordered pair t1 <= t2 (incl. t1 = t2 and values exactly on lattice distances) with all other parameters "
        "fixed, or strict=True vs strict=False; inputs from the exact lattices and from realistic decimals (round(x, 3) times); scores under t2 must "
        "be >= scores under t1; nested metric pairs are read from one evaluate() result; non-trivial = the two runs differ in at least one score "
        "(monotone part) / the nested scores differ (nested part); distinct by SHA-1")
ASSUMPTIONS = ["monotonicity needs no exact arithmetic: d <= t is monotone in t for the same float d, so realistic decimals are used too",
               "comparisons allow 1e-12 for quantities that are sums of floats"]
EPS = 1e-12


def _a(x):
    return np.asarray(x, dtype=float)


def _mono(name, lo, hi, case, which=None):
    """every score in hi >= the corresponding score in lo"""
    lo, hi = np.atleast_1d(np.asarray(lo, dtype=float)), np.atleast_1d(np.asarray(hi, dtype=float))
    for i, (x, y) in enumerate(zip(lo, hi)):
        if which is not None and i not in which:
            continue
        if y < x - EPS:
            raise Violation("%s: score %d falls from %r to %r when the criterion is loosened; case %r" % (name, i, x, y, case))
    return bool(np.any(np.abs(lo - hi) > EPS))


TOLS = [0.0, 0.01, 0.025, 0.05, 0.0625, 0.07, 0.1, 0.125, 0.25, 0.5, 1.0, 3.0]


@st.composite
def two(draw, values):
    a, b = draw(st.sampled_from(values)), draw(st.sampled_from(values))
    return (a, b) if a <= b else (b, a)


@st.composite
def events_case(draw):
    if draw(st.booleans()):
        ref, est = draw(g.event_pair(q=16, lo=5.0, hi=15.0, max_n=10))
    else:
        n = draw(st.integers(1, 10))
        ref = sorted(round(draw(st.floats(5, 15)), 3) for _ in range(n))
        est = sorted(round(min(15.0, max(5.0, r + draw(st.floats(-0.2, 0.2)))), 3) for r in ref if draw(st.integers(0, 4)))
    t1, t2 = draw(two(TOLS))
    bkw = R.subset(draw, {k: v for k, v in R.BEAT_KW.items() if k != "min_beat_time"}) if draw(st.booleans()) else {}
    return {"ref": ref, "est": est, "t1": t1, "t2": t2, "beat_kw": bkw}


def pred_events(case, ctx):
    r, e, t1, t2 = _a(case["ref"]), _a(case["est"]), case["t1"], case["t2"]
    nt = _mono("beat.f_measure(f_measure_threshold)", ctx.call(beat.f_measure, r, e, f_measure_threshold=t1), ctx.call(beat.f_measure, r, e, f_measure_threshold=t2), case)
    nt |= _mono("onset.f_measure(window)", ctx.call(onset.f_measure, r, e, window=t1), ctx.call(onset.f_measure, r, e, window=t2), case)
    m1 = len(ctx.call(__import__("mir_eval").util.match_events, r, e, t1))
    m2 = len(ctx.call(__import__("mir_eval").util.match_events, r, e, t2))
    if m2 < m1:
        raise Violation("match_events: %d hits with window %r but %d with %r" % (m1, t1, m2, t2))
    # nested beat criteria from one evaluate()
    sc = ctx.call(beat.evaluate, r, e, **case.get("beat_kw", {}))        # the nesting holds for every setting of the thresholds
    if case.get("beat_kw"):
        ctx.event("beat_keywords")
    for lo, hi in (("Cemgil", "Cemgil Best Metric Level"), ("Correct Metric Level Continuous", "Correct Metric Level Total"),
                   ("Any Metric Level Continuous", "Any Metric Level Total"), ("Correct Metric Level Continuous", "Any Metric Level Continuous"),
                   ("Correct Metric Level Total", "Any Metric Level Total")):
        if sc[lo] > sc[hi] + EPS:
            raise Violation("beat: %s = %r exceeds %s = %r; case %r" % (lo, sc[lo], hi, sc[hi], case))
    return nt


@st.composite
def boundary_case(draw):
    c = draw(gs.segmentation_pair())
    c["t1"], c["t2"] = draw(two([0.0, 0.125, 0.25, 0.5, 1.0, 3.0, 0.3]))
    c["trim"] = draw(st.booleans())
    return c


def pred_boundary(case, ctx):
    a, b = _a(case["ref_iv"]), _a(case["est_iv"])
    return _mono("segment.detection(window)", ctx.call(segment.detection, a, b, window=case["t1"], trim=case["trim"]),
                 ctx.call(segment.detection, a, b, window=case["t2"], trim=case["trim"]), case)


@st.composite
def notes_case(draw):
    c = draw(gt.notes_case())
    c["axis"] = draw(st.sampled_from(["onset_tolerance", "pitch_tolerance", "offset_ratio", "offset_min_tolerance", "velocity_tolerance", "strict"]))
    vals = {"onset_tolerance": [0.0, 0.025, 0.05, 0.0625, 0.125, 0.25, 0.5], "pitch_tolerance": [0.0, 10.0, 25.0, 49.0, 50.0, 51.0, 100.0, 1200.0],
            "offset_ratio": [0.0, 0.1, 0.2, 0.25, 0.5, 1.0], "offset_min_tolerance": [0.0, 0.05, 0.0625, 0.125, 0.5],
            "velocity_tolerance": [0.0, 0.05, 0.1, 0.3, 1.0], "strict": [0]}[c["axis"]]
    c["t1"], c["t2"] = draw(two(vals))
    if c["offset_ratio"] is None and c["axis"] in ("offset_ratio", "offset_min_tolerance"):
        c["offset_ratio"] = 0.2
    c["shuffle_notes"] = draw(st.booleans())
    # the tolerances that are held fixed are taken from a wide, non-default range: an interplay between two tolerances
    # (e.g. a floor that is only honoured below a hard-coded value) is invisible while the others stay near their defaults
    if draw(st.booleans()):
        c["offset_min_tolerance"] = draw(st.sampled_from([0.05, 0.0625, 0.125, 0.25, 0.5, 1.0]))
        if c["offset_ratio"] is not None:
            c["offset_ratio"] = draw(st.sampled_from([0.05, 0.1, 0.2, 0.25, 0.5, 1.0]))
        c["onset_tolerance"] = draw(st.sampled_from([0.025, 0.05, 0.0625, 0.125, 0.25, 0.5]))
        c["pitch_tolerance"] = draw(st.sampled_from([10.0, 25.0, 50.0, 100.0, 1200.0]))
    return c


def pred_notes(case, ctx):
    from checks.c05 import _arrs
    ri, rp, rv = _arrs(case["ref"])
    ei, ep, ev = _arrs(case["est"])
    if case.get("shuffle_notes"):      # notes need not be listed in onset order
        rk, ek = list(case["rperm"]), list(case["eperm"])
        ri, rp, rv, ei, ep, ev = ri[rk], rp[rk], rv[rk], ei[ek], ep[ek], ev[ek]
        ctx.event("notes_not_in_onset_order")
    base = dict(onset_tolerance=case["onset_tolerance"], pitch_tolerance=case["pitch_tolerance"], offset_ratio=case["offset_ratio"],
                offset_min_tolerance=case["offset_min_tolerance"], strict=case["strict"])
    ax = case["axis"]
    if ax == "strict":
        k1, k2 = dict(base, strict=True), dict(base, strict=False)
    elif ax == "velocity_tolerance":
        k1 = k2 = base
    else:
        k1, k2 = dict(base, **{ax: case["t1"]}), dict(base, **{ax: case["t2"]})
    nt = False
    if ax != "velocity_tolerance":
        s1 = ctx.call(transcription.precision_recall_f1_overlap, ri, rp, ei, ep, **k1)
        s2 = ctx.call(transcription.precision_recall_f1_overlap, ri, rp, ei, ep, **k2)
        nt |= _mono("transcription P/R/F (%s)" % ax, s1[:3], s2[:3], case)
        n1 = len(ctx.call(transcription.match_notes, ri, rp, ei, ep, **k1))
        n2 = len(ctx.call(transcription.match_notes, ri, rp, ei, ep, **k2))
        if n2 < n1:
            raise Violation("match_notes: %d hits fall to %d when %s is loosened; case %r" % (n1, n2, ax, case))
        if ax in ("onset_tolerance", "strict"):
            o1 = ctx.call(transcription.onset_precision_recall_f1, ri, ei, onset_tolerance=k1["onset_tolerance"], strict=k1["strict"])
            o2 = ctx.call(transcription.onset_precision_recall_f1, ri, ei, onset_tolerance=k2["onset_tolerance"], strict=k2["strict"])
            nt |= _mono("onset_precision_recall_f1 (%s)" % ax, o1, o2, case)
        if ax in ("offset_ratio", "offset_min_tolerance", "strict") and k1["offset_ratio"] is not None:
            f1 = ctx.call(transcription.offset_precision_recall_f1, ri, ei, offset_ratio=k1["offset_ratio"], offset_min_tolerance=k1["offset_min_tolerance"], strict=k1["strict"])
            f2 = ctx.call(transcription.offset_precision_recall_f1, ri, ei, offset_ratio=k2["offset_ratio"], offset_min_tolerance=k2["offset_min_tolerance"], strict=k2["strict"])
            nt |= _mono("offset_precision_recall_f1 (%s)" % ax, f1, f2, case)
    elif len(case["ref"]) and len(case["est"]):
        v1 = ctx.call(transcription_velocity.precision_recall_f1_overlap, ri, rp, rv, ei, ep, ev, velocity_tolerance=case["t1"], **base)
        v2 = ctx.call(transcription_velocity.precision_recall_f1_overlap, ri, rp, rv, ei, ep, ev, velocity_tolerance=case["t2"], **base)
        nt |= _mono("transcription_velocity P/R/F (velocity_tolerance)", v1[:3], v2[:3], case)
    # nested criteria from one evaluate(): with offsets <= without offsets <= onset-only; with velocity <= without
    kw = {k: v for k, v in base.items() if k != "offset_ratio"}
    sc = ctx.call(transcription.evaluate, ri, rp, ei, ep, **kw)
    for m in ("Precision", "Recall", "F-measure"):
        a_, b_, c_ = sc[m], sc[m + "_no_offset"], sc["Onset_" + m]
        if a_ > b_ + EPS or b_ > c_ + EPS:
            raise Violation("transcription %s: with offsets %r, no offset %r, onset-only %r are not ordered; case %r" % (m, a_, b_, c_, case))
        nt |= (a_ != b_ or b_ != c_)
    if len(case["ref"]) and len(case["est"]):
        sv = ctx.call(transcription_velocity.evaluate, ri, rp, rv, ei, ep, ev, **kw)
        for m in ("Precision", "Recall", "F-measure", "Precision_no_offset", "Recall_no_offset", "F-measure_no_offset"):
            if sv[m] > sc[m] + EPS:
                raise Violation("%s with velocity %r exceeds %r without; case %r" % (m, sv[m], sc[m], case))
    return nt


@st.composite
def melody_case(draw):
    c = draw(gt.melody_case(allow_params=True))
    c["t1"], c["t2"] = draw(two([0.0, 10, 25, 35.5, 50, 100, 600, 1200.0]))
    return c


def pred_melody(case, ctx):
    # the pre-processing keywords (continuous voicing, reward, hop, interpolation kind) are held fixed while the tolerance varies
    pre = {k: (_a(v) if isinstance(v, list) else v) for k, v in case.get("kw", {}).items() if k in ("est_voicing", "ref_reward", "hop", "kind")}
    if pre:
        ctx.event("preprocessing_keywords:" + "+".join(sorted(pre)))
    rv, rc, ev, ec = ctx.call(melody.to_cent_voicing, _a(case["ref_time"]), _a(case["ref_freq"]), _a(case["est_time"]), _a(case["est_freq"]), **pre)
    nt = False
    for fn in (melody.raw_pitch_accuracy, melody.raw_chroma_accuracy, melody.overall_accuracy):
        nt |= _mono("melody.%s(cent_tolerance)" % fn.__name__, ctx.call(fn, rv, rc, ev, ec, cent_tolerance=case["t1"]), ctx.call(fn, rv, rc, ev, ec, cent_tolerance=case["t2"]), case)
    for t in (case["t1"], case["t2"]):
        rpa = ctx.call(melody.raw_pitch_accuracy, rv, rc, ev, ec, cent_tolerance=t)
        rca = ctx.call(melody.raw_chroma_accuracy, rv, rc, ev, ec, cent_tolerance=t)
        if rpa > rca + EPS:
            raise Violation("raw pitch accuracy %r exceeds raw chroma accuracy %r (tolerance %r); case %r" % (rpa, rca, t, case))
        nt |= rpa != rca
    return nt


@st.composite
def multipitch_case(draw):
    c = draw(gp.multipitch_pair())
    c["t1"], c["t2"] = draw(two([0.25, 0.3, 0.5, 0.75, 0.05]))
    return c


def pred_multipitch(case, ctx):
    rt, et = _a(case["ref_time"]), _a(case["est_time"])
    rf, ef = R.hz_frames(case["ref_freqs"]), R.hz_frames(case["est_freqs"])
    m1 = ctx.call(multipitch.metrics, rt, rf, et, ef, window=case["t1"])
    m2 = ctx.call(multipitch.metrics, rt, rf, et, ef, window=case["t2"])
    nt = _mono("multipitch(window)", m1, m2, case, which={0, 1, 2, 7, 8, 9})
    for m in (m1, m2):
        for i, nm in ((0, "precision"), (1, "recall"), (2, "accuracy")):
            if m[i] > m[i + 7] + EPS:
                raise Violation("multipitch raw %s %r exceeds chroma %s %r; case %r" % (nm, m[i], nm, m[i + 7], case))
        if m[13] > m[6] + EPS:
            raise Violation("multipitch chroma total error %r exceeds raw total error %r; case %r" % (m[13], m[6], case))
        nt |= m[0] != m[7]
    return nt


@st.composite
def tempo_case(draw):
    c = draw(gt.tempo_case())
    c["t1"], c["t2"] = draw(two([0.0, 0.03125, 0.04, 0.0625, 0.08, 0.125, 0.25, 0.5, 1.0]))
    return c


def pred_tempo(case, ctx):
    r, w, e = _a(case["ref"]), case["weight"], _a(case["est"])
    d1 = ctx.call(tempo.detection, r, w, e, tol=case["t1"])
    d2 = ctx.call(tempo.detection, r, w, e, tol=case["t2"])
    nt = _mono("tempo.detection(tol)", [float(x) for x in d1], [float(x) for x in d2], case)
    for d in (d1, d2):
        if d[2] and not d[1]:
            raise Violation("tempo: both-correct without one-correct; case %r" % case)
    return nt


@st.composite
def alignment_case(draw):
    c = draw(gt.alignment_case())
    c["t1"], c["t2"] = draw(two([0.0, 0.0625, 0.1, 0.25, 0.3, 0.5, 1.0]))
    return c


def pred_alignment(case, ctx):
    r, e = _a(case["ref"]), _a(case["est"])
    return _mono("alignment.percentage_correct(window)", ctx.call(alignment.percentage_correct, r, e, window=case["t1"]),
                 ctx.call(alignment.percentage_correct, r, e, window=case["t2"]), case)


@st.composite
def pattern_tol_case(draw):
    """reference and estimated prototypes that are near-variants of ONE motif (same length, onsets moved by a few 1/16 s), so that which
    prototype matches which depends on tol"""
    L = draw(st.integers(2, 4))
    motif = [[float(i), 60.0 + draw(st.integers(0, 7))] for i in range(L)]

    def variant():
        return [[[a + draw(st.sampled_from([0, 0, 1, 2, 3, 4, 5, 6])) / 16, b] for a, b in motif]]      # one occurrence = the prototype
    ref = [variant() for _ in range(draw(st.integers(1, 3)))]
    est = [variant() for _ in range(draw(st.integers(1, 3)))]
    t1, t2 = draw(two([1e-5, 0.0625, 0.125, 0.1875, 0.25, 0.3125, 0.375, 0.5, 1.0]))
    if draw(st.integers(0, 2)) == 0:
        # a "crossing": reference A equals estimate 2 and is d1 away from estimate 1; reference B is d2 < d1 away from estimate 1 only.
        # Under t1 = d1 both references are matched; a wider tol must not lose one of them (it would if matches were handed out greedily).
        g_, d1, d2 = draw(st.sampled_from([0.875, 1.5, 2.0])), draw(st.sampled_from([0.25, 0.1875, 0.375])), draw(st.sampled_from([0.125, 0.0625]))
        two_note = lambda gap: [[[0.0, 60.0], [gap, 64.0]]]
        ra, rb, e1, e2 = two_note(g_), two_note(g_ + d1 + d2), two_note(g_ + d1), two_note(g_)
        ref = [ra, rb] if draw(st.booleans()) else [rb, ra]
        est = [e1, e2] if draw(st.integers(0, 2)) else [e2, e1]
        t1, t2 = d1, d1 + draw(st.sampled_from([0.0625, 0.25, 1.0]))
    return {"ref": ref, "est": est, "t1": t1, "t2": t2}


def pred_pattern_tol(case, ctx):
    a, b = R.tuples(case["ref"]), R.tuples(case["est"])
    s1 = ctx.call(pattern.standard_FPR, a, b, tol=case["t1"])
    s2 = ctx.call(pattern.standard_FPR, a, b, tol=case["t2"])
    # order (F, P, R)
    return _mono("pattern.standard_FPR(tol)", (s1[1], s1[2], s1[0]), (s2[1], s2[2], s2[0]), case) and len(a) + len(b) >= 3


SUBPROPS = [
    SubProp("beat_onset", pred_events, strategy=events_case, n=(1200, 30000), shards=(2, 8), floor=0.08, rule="window axis + nested beat criteria; NT = scores differ between the two windows"),
    SubProp("boundary_window", pred_boundary, strategy=boundary_case, n=(800, 20000), shards=(2, 8), floor=0.04, rule="segment.detection window; NT = scores differ"),
    SubProp("transcription", pred_notes, strategy=notes_case, n=(1200, 30000), shards=(4, 8), floor=0.08,
            rule="onset/pitch/offset/velocity tolerance or strict axis + nested criteria; NT = scores differ or nested scores differ"),
    SubProp("melody", pred_melody, strategy=melody_case, n=(800, 20000), shards=(2, 8), floor=0.15, rule="cent tolerance axis, RPA <= RCA; NT = scores differ"),
    SubProp("multipitch", pred_multipitch, strategy=multipitch_case, n=(800, 20000), shards=(2, 8), floor=0.15, rule="window axis, raw <= chroma; NT = scores differ"),
    SubProp("tempo", pred_tempo, strategy=tempo_case, n=(600, 10000), shards=(1, 4), floor=0.05, rule="tol axis, both => one; NT = scores differ"),
    SubProp("alignment", pred_alignment, strategy=alignment_case, n=(600, 10000), shards=(1, 4), floor=0.05, rule="window axis; NT = scores differ"),
    SubProp("pattern_tolerance", pred_pattern_tol, strategy=pattern_tol_case, n=(600, 12000), shards=(2, 8), floor=0.1,
            rule="pattern.standard_FPR under tol t1 <= t2 on near-variant prototypes (tol is not in the statement's list of tolerances; it is one in the same sense and "
                 "the relation holds by construction); NT = >= 3 prototypes and a score that changes"),
]
