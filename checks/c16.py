"""C16 -- segment labelling scores equal their clustering-index definitions."""
import math

import numpy as np
from hypothesis import strategies as st

from gens import segments as gs
from oracles import clustering as oc
from vlib.runner import SubProp, Violation

from mir_eval import segment

PROPERTY_ID = "C16"
SCALE = (2, 5)   # budget multiplier (quick, thorough) applied to the n=(...) of every generated sub-property
LEVEL = "exploration"
RULE = ("pairs of labeled segmentations with equal span from 0 (1..7 segments, repeated / unique / single / mixed-case labels; estimate "
        "independent, same boundaries, a relabelling, or identical), frame sizes dyadic, non-divisors of the duration (0.75, 1.5) and "
        "the decimal 0.1 / 0.3, beta in {0.5, 1, 2}; non-trivial = both annotations have >= 2 frame labels and the contingency table "
        "is not a bijection between labels; distinct by SHA-1")
ASSUMPTIONS = [
    "oracle: contingency-table formulas in /verif/oracles/clustering.py (exact hypergeometric expectation for AMI via fractions)",
    "scores whose textbook formula is 0/0 on the input are not compared here (finite-range behaviour is C01's subject)",
    "NMI is compared with tolerance 1e-4 when exactly one entropy is 0 (the implementation divides by a 1e-10 floor); AMI with 1e-6 (exp/gammaln summation)",
    "cases where floor(T/frame_size) in floating point differs from the decimal reading are counted and skipped",
]


def _arr(iv):
    return np.array(iv, dtype=float).reshape(-1, 2)


def _cmp(name, got, want, tol, case):
    if want is None:
        return
    if isinstance(got, float) and math.isnan(got) or not abs(got - want) <= tol:
        raise Violation("%s = %r, definition gives %r (tolerance %g); ref=%r %r est=%r %r frame_size=%r beta=%r"
                        % (name, got, want, tol, case["ref_iv"], case["ref_lab"], case["est_iv"], case["est_lab"],
                           case["frame_size"], case["beta"]))


def pred_indices(case, ctx):
    fs, beta = case["frame_size"], case["beta"]
    T = case["ref_iv"][-1][1]
    n = oc.n_frames(T, fs)
    if int(np.floor(T / fs)) != n:
        ctx.skip("floor(T/frame_size) differs between float and decimal arithmetic")
        return False
    if n < 1:
        ctx.skip("no frame")
        return False
    fa = oc.frame_labels(case["ref_iv"], case["ref_lab"], fs)
    fb = oc.frame_labels(case["est_iv"], case["est_lab"], fs)
    o = oc.indices(fa, fb)
    args = (_arr(case["ref_iv"]), list(case["ref_lab"]), _arr(case["est_iv"]), list(case["est_lab"]))
    rev = (args[2], args[3], args[0], args[1])
    if o["pw_p"] is not None and o["pw_r"] is not None:
        p, r, f = ctx.call(segment.pairwise, *args, frame_size=fs, beta=beta)
        _cmp("pairwise precision", p, o["pw_p"], 1e-9, case)
        _cmp("pairwise recall", r, o["pw_r"], 1e-9, case)
        _cmp("pairwise F", f, oc.fbeta(o["pw_p"], o["pw_r"], beta), 1e-9, case)
    else:
        ctx.event("pairwise_undefined(0/0)")
    if o["rand"] is not None:
        _cmp("rand_index", ctx.call(segment.rand_index, *args, frame_size=fs), o["rand"], 1e-9, case)
    if n >= 1:
        ari = ctx.call(segment.ari, *args, frame_size=fs)
        _cmp("ari", ari, o["ari"], 1e-9, case)
        ka, kb = len(set(fa)), len(set(fb))
        same_partition = len(set(zip(fa, fb))) == ka == kb
        if same_partition and not abs(ari - 1.0) <= 1e-9:
            raise Violation("ARI = %r although the two frame partitions coincide; %r" % (ari, case))
    mi, ami, nmi = ctx.call(segment.mutual_information, *args, frame_size=fs)
    _cmp("mutual information", mi, o["mi"], 1e-9, case)
    _cmp("adjusted mutual information", ami, o["ami"], 1e-6, case)
    one_zero = (o["h_ref"] == 0) != (o["h_est"] == 0)
    _cmp("normalized mutual information", nmi, o["nmi"], 1e-4 if one_zero else 1e-9, case)
    mi2 = ctx.call(segment.mutual_information, *rev, frame_size=fs)[0]
    if not abs(mi - mi2) <= 1e-12:
        raise Violation("MI(a,b) = %r but MI(b,a) = %r" % (mi, mi2))
    for marg in (False, True):
        ov, un, ff = ctx.call(segment.nce, *args, frame_size=fs, beta=beta, marginal=marg)
        _cmp("nce over (marginal=%s)" % marg, ov, o["nce", marg][0], 1e-9, case)
        _cmp("nce under (marginal=%s)" % marg, un, o["nce", marg][1], 1e-9, case)
        _cmp("nce F (marginal=%s)" % marg, ff, oc.fbeta(o["nce", marg][0], o["nce", marg][1], beta), 1e-9, case)
        if marg:
            v = ctx.call(segment.vmeasure, *args, frame_size=fs, beta=beta)
            if tuple(v) != (ov, un, ff):
                raise Violation("vmeasure %r is not identical to nce(marginal=True) %r" % (tuple(v), (ov, un, ff)))
            hm = oc.fbeta(v[0], v[1], beta)
            if not abs(v[2] - hm) <= 1e-12:
                raise Violation("V-measure %r is not the (beta-weighted) harmonic mean %r of its precision and recall" % (v[2], hm))
    # case-insensitivity: swapping the case of every label changes nothing
    sw = (args[0], [l.swapcase() for l in args[1]], args[2], [l.upper() for l in args[3]])
    if o["pw_p"] is not None and o["pw_r"] is not None:
        a1 = ctx.call(segment.pairwise, *args, frame_size=fs)
        a2 = ctx.call(segment.pairwise, *sw, frame_size=fs)
        if tuple(a1) != tuple(a2):
            raise Violation("pairwise changes when label case changes: %r vs %r" % (a1, a2))
    ka, kb = len(set(fa)), len(set(fb))
    bij = len(set(zip(fa, fb))) == ka == kb
    ctx.event("labels_ref=%d" % min(ka, 4))
    if fs in (0.75, 1.5, 0.3) or (T / fs) != int(T / fs):
        ctx.event("frame_size_not_dividing_duration")
    if any(l != l.lower() for l in case["ref_lab"] + case["est_lab"]):
        ctx.event("mixed_case_labels")
    return ka >= 2 and kb >= 2 and not bij


SUBPROPS = [
    SubProp("clustering_indices", pred_indices, strategy=gs.segmentation_pair, n=(2500, 60000), shards=(4, 16), floor=0.15,
            rule="NT = both annotations have >= 2 frame labels and the label correspondence is not a bijection"),
]
