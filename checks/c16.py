"""C16 -- segment labelling scores equal their clustering-index definitions."""
import math

from collections import Counter

import numpy as np
from hypothesis import strategies as st

from gens import segments as gs
from oracles import clustering as oc
from vlib.runner import SubProp, Violation

from mir_eval import segment

PROPERTY_ID = "C16"
SCALE = (2, 5)   # budget multiplier (quick, thorough) applied to the n=(...) of every generated sub-property
LEVEL = "exploration"
RULE = ("pairs of labeled segmentations with equal span from 0 (1..7 segments, repeated / unique / single / mixed-case labels; estimate "
        "independent, same boundaries, a relabelling, or identical), frame sizes dyadic, non-divisors of the duration (0.75, 1.5) and "
        "the decimal 0.1 / 0.3, beta in {0.5, 1, 2}; non-trivial = both annotations have >= 2 frame labels and the contingency table "
        "is not a bijection between labels; distinct by SHA-1")
ASSUMPTIONS = [
    "oracle: contingency-table formulas in /verif/oracles/clustering.py (exact hypergeometric expectation for AMI via fractions)",
    "scores whose textbook formula is 0/0 on the input are not compared here (finite-range behaviour is C01's subject)",
    "NMI is compared with tolerance 1e-4 when exactly one entropy is 0 (the implementation divides by a 1e-10 floor); AMI with 1e-6 (exp/gammaln summation)",
    "cases where floor(T/frame_size) in floating point differs from the decimal reading are counted and skipped",
]


def _arr(iv):
    return np.array(iv, dtype=float).reshape(-1, 2)


def _cmp(name, got, want, tol, case):
    if want is None:
        return
    if isinstance(got, float) and math.isnan(got) or not abs(got - want) <= tol:
        raise Violation("%s = %r, definition gives %r (tolerance %g); ref=%r %r est=%r %r frame_size=%r beta=%r"
                        % (name, got, want, tol, case["ref_iv"], case["ref_lab"], case["est_iv"], case["est_lab"],
                           case["frame_size"], case["beta"]))


def pred_indices(case, ctx):
    fs, beta = case["frame_size"], case["beta"]
    T = case["ref_iv"][-1][1]
    n = oc.n_frames(T, fs)
    if int(np.floor(T / fs)) != n:
        ctx.skip("floor(T/frame_size) differs between float and decimal arithmetic")
        return False
    if n < 1:
        ctx.skip("no frame")
        return False
    fa = oc.frame_labels(case["ref_iv"], case["ref_lab"], fs)
    fb = oc.frame_labels(case["est_iv"], case["est_lab"], fs)
    o = oc.indices(fa, fb)
    args = (_arr(case["ref_iv"]), list(case["ref_lab"]), _arr(case["est_iv"]), list(case["est_lab"]))
    rev = (args[2], args[3], args[0], args[1])
    if o["pw_p"] is not None and o["pw_r"] is not None:
        p, r, f = ctx.call(segment.pairwise, *args, frame_size=fs, beta=beta)
        _cmp("pairwise precision", p, o["pw_p"], 1e-9, case)
        _cmp("pairwise recall", r, o["pw_r"], 1e-9, case)
        _cmp("pairwise F", f, oc.fbeta(o["pw_p"], o["pw_r"], beta), 1e-9, case)
    else:
        ctx.event("pairwise_undefined(0/0)")
    if o["rand"] is not None:
        _cmp("rand_index", ctx.call(segment.rand_index, *args, frame_size=fs), o["rand"], 1e-9, case)
    if n >= 1:
        ari = ctx.call(segment.ari, *args, frame_size=fs)
        _cmp("ari", ari, o["ari"], 1e-9, case)
        ka, kb = len(set(fa)), len(set(fb))
        same_partition = len(set(zip(fa, fb))) == ka == kb
        if same_partition and not abs(ari - 1.0) <= 1e-9:
            raise Violation("ARI = %r although the two frame partitions coincide; %r" % (ari, case))
    mi, ami, nmi = ctx.call(segment.mutual_information, *args, frame_size=fs)
    _cmp("mutual information", mi, o["mi"], 1e-9, case)
    _cmp("adjusted mutual information", ami, o["ami"], 1e-6, case)
    one_zero = (o["h_ref"] == 0) != (o["h_est"] == 0)
    _cmp("normalized mutual information", nmi, o["nmi"], 1e-4 if one_zero else 1e-9, case)
    mi2 = ctx.call(segment.mutual_information, *rev, frame_size=fs)[0]
    if not abs(mi - mi2) <= 1e-12:
        raise Violation("MI(a,b) = %r but MI(b,a) = %r" % (mi, mi2))
    for marg in (False, True):
        ov, un, ff = ctx.call(segment.nce, *args, frame_size=fs, beta=beta, marginal=marg)
        _cmp("nce over (marginal=%s)" % marg, ov, o["nce", marg][0], 1e-9, case)
        _cmp("nce under (marginal=%s)" % marg, un, o["nce", marg][1], 1e-9, case)
        _cmp("nce F (marginal=%s)" % marg, ff, oc.fbeta(o["nce", marg][0], o["nce", marg][1], beta), 1e-9, case)
        if marg:
            v = ctx.call(segment.vmeasure, *args, frame_size=fs, beta=beta)
            if tuple(v) != (ov, un, ff):
                raise Violation("vmeasure %r is not identical to nce(marginal=True) %r" % (tuple(v), (ov, un, ff)))
            hm = oc.fbeta(v[0], v[1], beta)
            if not abs(v[2] - hm) <= 1e-12:
                raise Violation("V-measure %r is not the (beta-weighted) harmonic mean %r of its precision and recall" % (v[2], hm))
    # case-insensitivity: swapping the case of every label changes nothing
    sw = (args[0], [l.swapcase() for l in args[1]], args[2], [l.upper() for l in args[3]])
    if o["pw_p"] is not None and o["pw_r"] is not None:
        a1 = ctx.call(segment.pairwise, *args, frame_size=fs)
        a2 = ctx.call(segment.pairwise, *sw, frame_size=fs)
        if tuple(a1) != tuple(a2):
            raise Violation("pairwise changes when label case changes: %r vs %r" % (a1, a2))
    ka, kb = len(set(fa)), len(set(fb))
    bij = len(set(zip(fa, fb))) == ka == kb
    ctx.event("labels_ref=%d" % min(ka, 4))
    if fs in (0.75, 1.5, 0.3) or (T / fs) != int(T / fs):
        ctx.event("frame_size_not_dividing_duration")
    if any(l != l.lower() for l in case["ref_lab"] + case["est_lab"]):
        ctx.event("mixed_case_labels")
    return ka >= 2 and kb >= 2 and not bij


@st.composite
def long_case(draw):
    """Long annotations / small frames: 2^13 .. 2^19 frames.  Boundaries are multiples of the (dyadic) frame size, so the
    contingency table is known in closed form from the interval overlaps and no frame sequence has to be built by the oracle."""
    c = draw(gs.segmentation_pair(q=8, max_T=16))
    fs = draw(st.sampled_from([1.0, 0.25, 0.0625, 1 / 64]))
    e = draw(st.sampled_from([10, 12, 13, 13, 13, 14, 15, 16, 16, 17, 17, 18, 19]))
    T = c["ref_iv"][-1][1]
    S = max(8 * fs, 2.0 ** math.ceil(math.log2(2 ** e * fs / T)))     # power of two: scaling and the frame count stay exact
    for k in ("ref_iv", "est_iv"):
        c[k] = [[s * S, e_ * S] for s, e_ in c[k]]
    c["frame_size"] = fs
    return c


def pred_long(case, ctx):
    fs, beta = case["frame_size"], case["beta"]
    T = case["ref_iv"][-1][1]
    n = int(T / fs)
    if n > 2 ** 20 or n < 2 ** 10:
        ctx.skip("frame count outside 2^10 .. 2^20")
        return False
    # frame k*fs belongs to the later interval on a shared boundary and the frame at T is not sampled -> [s, e) holds (e-s)/fs frames
    cnt = Counter()
    for (s1, e1), l1 in zip(case["ref_iv"], case["ref_lab"]):
        for (s2, e2), l2 in zip(case["est_iv"], case["est_lab"]):
            ov = min(e1, e2) - max(s1, s2)
            if ov > 0:
                cnt[(l1.lower(), l2.lower())] += int(ov / fs)
    o = oc.indices_from_counts(cnt)
    assert o["n"] == n, (o["n"], n)
    args = (_arr(case["ref_iv"]), list(case["ref_lab"]), _arr(case["est_iv"]), list(case["est_lab"]))
    ari = ctx.call(segment.ari, *args, frame_size=fs)
    _cmp("ari (%d frames)" % n, ari, o["ari"], 1e-9, case)
    bij = len(cnt) == o["k_ref"] == o["k_est"]
    if bij and not abs(ari - 1.0) <= 1e-9:
        raise Violation("ARI = %r although the two frame partitions coincide; %r" % (ari, case))
    if n <= 12288:
        # pairwise / Rand build (frames x frames) agreement matrices: only up to 12 288 frames (3 x 150 MB)
        if o["pw_p"] is not None and o["pw_r"] is not None:
            p, r, f = ctx.call(segment.pairwise, *args, frame_size=fs, beta=beta)
            _cmp("pairwise precision (%d frames)" % n, p, o["pw_p"], 1e-9, case)
            _cmp("pairwise recall (%d frames)" % n, r, o["pw_r"], 1e-9, case)
            _cmp("pairwise F (%d frames)" % n, f, oc.fbeta(o["pw_p"], o["pw_r"], beta), 1e-9, case)
        _cmp("rand_index (%d frames)" % n, ctx.call(segment.rand_index, *args, frame_size=fs), o["rand"], 1e-9, case)
        ctx.event("pairwise_and_rand_compared")
        if n > 8192:
            ctx.event("pairwise_and_rand_beyond_8192_frames")
    if n <= 2 ** 17 + 2 ** 16:
        mi, ami, nmi = ctx.call(segment.mutual_information, *args, frame_size=fs)
        _cmp("mutual information (%d frames)" % n, mi, o["mi"], 1e-9, case)
        _cmp("adjusted mutual information (%d frames)" % n, ami, o["ami"], 1e-6, case)
        one_zero = (o["h_ref"] == 0) != (o["h_est"] == 0)
        _cmp("normalized mutual information (%d frames)" % n, nmi, o["nmi"], 1e-4 if one_zero else 1e-9, case)
        ctx.event("mutual_information_compared")
    for marg in (False, True):
        ov, un, ff = ctx.call(segment.nce, *args, frame_size=fs, beta=beta, marginal=marg)
        _cmp("nce over (marginal=%s, %d frames)" % (marg, n), ov, o["nce", marg][0], 1e-9, case)
        _cmp("nce under (marginal=%s, %d frames)" % (marg, n), un, o["nce", marg][1], 1e-9, case)
    ctx.event("frames>=2^%d" % int(math.log2(n)))
    return o["k_ref"] >= 2 and o["k_est"] >= 2 and not bij


SUBPROPS = [
    SubProp("many_frames", pred_long, strategy=long_case, n=(60, 300), shards=(6, 8), floor=0.1,
            rule="the same annotations stretched to 2^10..2^19 frames (long recording / small frame_size); ARI, MI, AMI, NMI, NCE against the contingency "
                 "table derived from interval overlaps (pairwise / Rand build n x n matrices and are run up to 12 288 frames only); NT = >= 2 labels each side, not a bijection"),
    SubProp("clustering_indices", pred_indices, strategy=gs.segmentation_pair, n=(2500, 60000), shards=(4, 16), floor=0.15,
            rule="NT = both annotations have >= 2 frame labels and the label correspondence is not a bijection"),
]
