"""C02 -- a perfect estimate receives the perfect score in every task."""
import copy
import math

import numpy as np
from hypothesis import strategies as st

from gens import registry as R
from gens import tasks as gt
from oracles import clustering as oc
from oracles import harte as H
from oracles import hier as oh
from vlib.runner import SubProp, Violation

from checks import c11

PROPERTY_ID = "C02"
SCALE = (3, 3)   # budget multiplier (quick, thorough) applied to the n=(...) of every generated sub-property
LEVEL = "exploration"
RULE = ("valid, non-degenerate annotations x per task (non-degeneracy made executable from the statement: >= 5 well-separated beats, non-empty event/note "
        "lists, >= 1 voiced frame / frequency / in-vocabulary chord, >= 2 frames with a same-label pair, <= n patterns, >= 2 distinct alignment "
        "timestamps or a duration ...) scored against a deep copy of themselves with a random subset of the keyword parameters; non-trivial = x has "
        ">= 3 elements and at least one non-default parameter or a tie/duplicate feature; distinct by SHA-1")
ASSUMPTIONS = [
    "optimum table: 1 for agreement scores, 0 for error/false-alarm/deviation scores, MI = H(labels); 'perceptual' excluded (documented maximum is not 1)",
    "documented conventions for nothing-to-compare cases are the expected optimum: chord rule with no in-vocabulary reference interval -> 0, NCE/V with a single frame label -> 0, "
    "hierarchy with no reference triple -> 0",
    "melody is scored with binary voicing (a continuous reward/voicing pair has no 'copy' that attains recall 1)",
]
TOL = 1e-9


@st.composite
def good_beats(draw):
    n = draw(st.integers(5, 14))
    period = draw(st.sampled_from([0.5, 0.75, 1.0, 0.375, 2.0]))
    t0 = 5.0 + draw(st.integers(0, 128)) / 64
    jmax = int(period * 64 / 8)
    beats = [t0 + i * period + (draw(st.integers(-jmax, jmax)) / 64 if jmax else 0) for i in range(n)]
    pre = draw(st.lists(st.integers(0, 5 * 64 - 1).map(lambda k: k / 64), max_size=2))
    kw = R.subset(draw, {k: v for k, v in R.BEAT_KW.items() if k not in ("min_beat_time", "cemgil_sigma")})
    if draw(st.integers(0, 2)) == 0:
        kw["cemgil_sigma"] = draw(st.sampled_from([0.04, 0.02]))
    return {"shape": "beats", "ref": sorted(pre + beats), "est": None, "kw": kw}


def _cp(case):
    c = copy.deepcopy(case)
    c["est"] = copy.deepcopy(c["ref"])
    return c


def _expect(task, scores, want, case):
    for k, w in want.items():
        if k not in scores:
            raise Violation("%s.evaluate(x, copy(x)) lacks %r" % (task, k))
        v = float(scores[k])
        if not (abs(v - w) <= TOL):
            raise Violation("%s.evaluate(x, copy(x))[%r] = %r, the optimum is %r; x = %r, kwargs %r" % (task, k, v, w, case["ref"], case["kw"]))


def _interchangeable_notes(notes, kw, with_offset, velocity):
    """two notes of x with different intervals such that the second is an admissible partner of the first under the matching criteria
    (onset, pitch, optionally offset; velocity never decides x against its copy because the regression is exact there)"""
    ot, pt = kw.get("onset_tolerance", 0.05), kw.get("pitch_tolerance", 50.0)
    ratio, omin = kw.get("offset_ratio", 0.2), kw.get("offset_min_tolerance", 0.05)
    eps = 1e-6
    for i, a in enumerate(notes):
        for j, b in enumerate(notes):
            if i == j or (a[0] == b[0] and a[1] == b[1]):
                continue
            if abs(a[0] - b[0]) > ot + eps or abs(1200.0 * math.log2(a[2] / b[2])) > pt + eps:
                continue
            if with_offset and ratio is not None and abs(a[1] - b[1]) > max(ratio * (a[1] - a[0]), omin) + eps:
                continue
            return True
    return False


def make_pred(task):
    mod = R.module(task)

    def pred(case, ctx):
        c = _cp(case)
        if task in ("segment", "hierarchy", "beat", "melody"):
            c["time_scale"] = None      # the optimum (label entropy / which queries exist / beats after trimming / voiced frames after resampling) is computed on the exact lattice
        elif c.get("time_scale"):
            ctx.event("off_lattice_times")
        kw = c["kw"]
        ref = c["ref"]
        want = None
        size = 0
        # ---------------- per-task non-degeneracy and optimum
        if task == "beat":
            beats = [b for b in ref if b >= kw.get("min_beat_time", 5.0)]
            size = len(beats)
            if size < 5:
                ctx.skip("fewer than 5 beats after trimming")
                return False
            want = {"F-measure": 1, "Cemgil": 1, "Cemgil Best Metric Level": 1, "Goto": 1, "P-score": 1, "Correct Metric Level Continuous": 1,
                    "Correct Metric Level Total": 1, "Any Metric Level Continuous": 1, "Any Metric Level Total": 1, "Information gain": 1}
        elif task == "onset":
            if not ref:
                ctx.skip("empty")
                return False
            size = len(ref)
            want = {"F-measure": 1, "Precision": 1, "Recall": 1}
        elif task == "segment":
            kw.pop("trim", None) if len(ref["iv"]) < 2 else None
            fs = kw.get("frame_size", 0.1)
            T = ref["iv"][-1][1]
            if int(np.floor(T / fs)) != oc.n_frames(T, fs):
                ctx.skip("float/decimal frame count differs")
                return False
            fl = oc.frame_labels(ref["iv"], ref["lab"], fs)
            o = oc.indices(fl, fl) if len(fl) >= 2 else None
            if o is None or o["pw_p"] is None or len(set(fl)) == len(fl):
                ctx.skip("fewer than 2 frames, no same-label frame pair, or all-singleton frames")
                return False
            size = len(ref["iv"])
            one = len(set(fl)) == 1
            H_nats = o["h_ref"]
            want = {"Precision@0.5": 1, "Recall@0.5": 1, "F-measure@0.5": 1, "Precision@3.0": 1, "Recall@3.0": 1, "F-measure@3.0": 1,
                    "Ref-to-est deviation": 0, "Est-to-ref deviation": 0, "Pairwise Precision": 1, "Pairwise Recall": 1, "Pairwise F-measure": 1,
                    "Rand Index": 1, "Adjusted Rand Index": 1, "Mutual Information": H_nats, "Adjusted Mutual Information": 1,
                    "Normalized Mutual Information": 1, "NCE Over": 0 if one else 1, "NCE Under": 0 if one else 1, "NCE F-measure": 0 if one else 1,
                    "V Precision": 0 if one else 1, "V Recall": 0 if one else 1, "V-measure": 0 if one else 1}
        elif task == "chord":
            size = len(ref["iv"])
            want = {"underseg": 1, "overseg": 1, "seg": 1}
            for rule in c11.FNS:
                inv = any(c11.model(l, l)[rule] not in (-1, None) for l in ref["lab"])
                want[rule] = 1 if inv else 0
        elif task == "melody":
            # a copy may also come with its confidences spelled out: the estimate's voicing equal to the reference's own binary voicing,
            # the reference's reward 1 on its voiced frames - each alone or both leave every optimum where it is
            had_v, had_r = kw.pop("est_voicing", None) is not None, kw.pop("ref_reward", None) is not None
            if had_v:
                kw["est_voicing"] = [1.0 if f > 0 else 0.0 for f in ref["freq"]]
            if had_r:
                kw["ref_reward"] = [1.0 if f > 0 else 0.0 for f in ref["freq"]]      # full reward exactly on the voiced frames
            if had_v != had_r:
                ctx.event("one_confidence_keyword")
            from oracles import melody as omel
            try:
                rv_, _, _, _ = omel.to_cent_voicing(ref["time"], ref["freq"], ref["time"], ref["freq"], hop=kw.get("hop"), kind=kw.get("kind", "linear"))
            except omel.NearestTie:
                ctx.skip("nearest-interpolation tie")
                return False
            if not any(v > 0 for v in rv_):
                # non-degenerate means: at least one voiced frame on the time base that is actually scored (after hop resampling)
                ctx.skip("no voiced frame (after resampling)")
                return False
            size = len(ref["freq"])
            want = {"Voicing Recall": 1, "Voicing False Alarm": 0, "Raw Pitch Accuracy": 1, "Raw Chroma Accuracy": 1, "Overall Accuracy": 1}
            if len(ref["freq"]) % 3 == 0 and any(f == 0 for f in ref["freq"]):
                # un-voiced frames may carry a pitch guess, written as a negative frequency: voicing (and every optimum) is unchanged
                ref["freq"] = [(-220.0 if (f == 0 and i % 2 == 0) else f) for i, f in enumerate(ref["freq"])]
                c["est"]["freq"] = list(ref["freq"])
                ctx.event("unvoiced_frames_with_a_pitch_guess")
        elif task == "multipitch":
            if not any(ref["freqs"]):
                ctx.skip("no frequency")
                return False
            size = sum(len(f) for f in ref["freqs"])
            want = {k: (0 if "Error" in k else 1) for k in ["Precision", "Recall", "Accuracy", "Substitution Error", "Miss Error", "False Alarm Error",
                                                           "Total Error", "Chroma Precision", "Chroma Recall", "Chroma Accuracy", "Chroma Substitution Error",
                                                           "Chroma Miss Error", "Chroma False Alarm Error", "Chroma Total Error"]}
        elif task in ("transcription", "transcription_velocity"):
            if not ref:
                ctx.skip("empty")
                return False
            size = len(ref)
            want = {"Precision_no_offset": 1, "Recall_no_offset": 1, "F-measure_no_offset": 1, "Average_Overlap_Ratio_no_offset": 1}
            if kw.get("offset_ratio", 0.2) is not None:
                want.update({"Precision": 1, "Recall": 1, "F-measure": 1, "Average_Overlap_Ratio": 1})
            if task == "transcription":
                want.update({"Onset_Precision": 1, "Onset_Recall": 1, "Onset_F-measure": 1})
                if kw.get("offset_ratio", 0.2) is not None:
                    want.update({"Offset_Precision": 1, "Offset_Recall": 1, "Offset_F-measure": 1})
        elif task == "tempo":
            if not all(t > 0 for t in ref["tempi"]):
                ctx.skip("a reference tempo is 0")
                return False
            c["est"] = list(ref["tempi"])
            size = 3
            want = {"P-score": 1, "One-correct": 1, "Both-correct": 1}
        elif task == "key":
            size = 3
            want = {"Weighted Score": 1}
        elif task == "pattern":
            n = kw.get("n", 5)
            if not ref or len(ref) > n:
                ctx.skip("empty or more than n patterns")
                return False
            if any(len({tuple(nt) for nt in o}) < len(o) for P_ in ref for o in P_):
                # an occurrence that lists the same (onset, midi) pair twice: the cardinality score divides the size of a SET
                # intersection by the LENGTH of the list, so even an exact copy scores < 1 - the metric is not defined on it
                ctx.skip("occurrence with a repeated note (degenerate for the cardinality score)")
                return False
            size = len(ref) + 2
            want = {k: 1 for k in ["F", "P", "R", "F_est", "P_est", "R_est", "F_occ.5", "P_occ.5", "R_occ.5", "F_occ.75", "P_occ.75", "R_occ.75",
                                   "F_3", "P_3", "R_3", "FFP", "FFTP_est"]}
        elif task == "hierarchy":
            fs = kw.get("frame_size", 0.1)
            if fs not in (0.25, 0.5, 1.0):
                kw["frame_size"] = fs = 0.5
            T = ref["iv"][0][-1][1]
            if oh.n_frames(T, fs) < 1:
                ctx.skip("no frame")
                return False
            win = kw.get("window", 15.0)
            if win < fs:
                kw["window"] = win = fs
            wf = int(math.floor(win / fs))
            Rm = oh.lca(ref["iv"], fs)
            Mm = oh.meet(ref["iv"], ref["lab"], fs)
            want = {}
            for trans, tag in ((False, "reduced"), (True, "full")):
                _, nq = oh.gauc(Rm, Rm, trans, wf)
                v = 1 if nq else 0
                want.update({"T-Precision " + tag: v, "T-Recall " + tag: v, "T-Measure " + tag: v})
            _, nq = oh.gauc(Mm, Mm, True, None)
            v = 1 if nq else 0
            want.update({"L-Precision": v, "L-Recall": v, "L-Measure": v})
            size = sum(len(lv) for lv in ref["iv"])
        elif task == "alignment":
            if "duration" not in kw and ref[0] == ref[-1]:
                ctx.skip("one distinct timestamp and no duration")
                return False
            if "duration" in kw:
                kw["duration"] = max(kw["duration"], ref[-1])
            size = len(ref)
            want = {"pc": 1, "mae": 0, "aae": 0, "pcs": 1}
        args, k2 = R.build(task, c)
        scores = ctx.call(mod.evaluate, *args, **k2)
        aor = {}
        if task in ("transcription", "transcription_velocity"):
            aor = {k: want.pop(k) for k in list(want) if k.startswith("Average_Overlap_Ratio")}
        _expect(task, scores, want, c)
        for k in aor:
            v = float(scores[k])
            if abs(v - 1) <= TOL:
                continue
            # The overlap ratio is averaged over WHICHEVER maximum matching the library finds.  For x against its copy the identity
            # matching gives 1, but when two different notes of x are interchangeable under the criteria (KF-14) another maximum
            # matching exists and may be the one found.  Anything else below 1 is a violation.
            if _interchangeable_notes(ref, kw, with_offset=(k == "Average_Overlap_Ratio"), velocity=(task == "transcription_velocity")):
                ctx.known("c02.transcription:overlap_ratio_of_a_copy_below_one_when_notes_are_interchangeable", "%s = %r" % (k, v))
            else:
                raise Violation("%s.evaluate(x, copy(x))[%r] = %r, the optimum is 1 and no two notes of x are interchangeable; x = %r, kwargs %r" % (task, k, v, ref, kw))
        if any(v == 0 for k, v in want.items() if "Error" not in k and "deviation" not in k and k not in ("mae", "aae", "Voicing False Alarm")):
            ctx.event("documented_zero_convention")
        feature = bool(kw) or task == "key" or (task == "chord" and len(set(ref["lab"])) >= 2)
        if isinstance(ref, list) and ref and not isinstance(ref[0], (list, dict)):
            feature = feature or len(set(ref)) < len(ref)
        return size >= 3 and feature
    return pred


STRATS = dict(R.STRATEGIES)
STRATS["beat"] = good_beats
N = {"beat": (500, 12000), "onset": (400, 8000), "segment": (400, 8000), "chord": (300, 6000), "hierarchy": (150, 3000), "melody": (400, 8000),
     "multipitch": (300, 6000), "transcription": (400, 8000), "transcription_velocity": (300, 6000), "tempo": (200, 3000), "key": (150, 2000),
     "pattern": (400, 8000), "alignment": (300, 6000)}
SUBPROPS = [SubProp(t, make_pred(t), strategy=STRATS[t], n=N[t], shards=(2 if t in ("segment", "hierarchy") else 1, 8),
                    floor=0.1,
                    rule="mir_eval.%s.evaluate(x, copy(x)); NT = x has >= 3 elements and a non-default parameter or duplicate" % t) for t in R.TASKS]
