"""C08 -- scores ignore time origin, item order and segment label names."""
import numpy as np
from hypothesis import strategies as st

from gens import base as g
from gens import pitch as gp
from gens import registry as R
from gens import segments as gs
from gens import tasks as gt
from vlib.runner import SubProp, Violation

from mir_eval import alignment, beat, chord, hierarchy, multipitch, onset, pattern, segment, tempo, transcription

PROPERTY_ID = "C08"
SCALE = (3, 3)   # budget multiplier (quick, thorough) applied to the n=(...) of every generated sub-property
LEVEL = "exploration"
RULE = ("inputs on an exact-arithmetic time lattice together with a transformation that carries no musical meaning: a shift by an exactly "
        "representable k/2^q applied to reference and estimate (beats kept >= the trim time), a permutation of notes / of the frequencies inside "
        "multipitch frames / of the two estimated tempi / of the reference pattern list, or independent label bijections (new names distinct after "
        "case folding, random capitalisation) for segment and hierarchy; scores before and after must be equal; non-trivial = >= 3 elements and a "
        "non-identity transformation; distinct by SHA-1")
ASSUMPTIONS = ["equality to 1e-12 (shifts are exact on the lattice; only summation order may change)",
               "under permutations only precision/recall/F are asserted (the overlap ratio depends on which maximum matching is found)",
               "melody is deliberately not shifted: its time base is anchored at 0 by to_cent_voicing",
               "alignment.percentage_correct_segments with duration= is not shifted either: the documentation anchors its first segment at time 0 "
               "(only the MIREX variant, without duration, is documented as independent of the silent lead-in)"]
TOL = 1e-12


def _a(x):
    return np.asarray(x, dtype=float)


def _same(name, s1, s2, case, keys=None):
    if isinstance(s1, dict):
        items = [(k, s1[k], s2[k]) for k in (keys or s1.keys())]
    else:
        items = [(i, x, y) for i, (x, y) in enumerate(zip(np.atleast_1d(s1), np.atleast_1d(s2)))]
    for k, x, y in items:
        x, y = float(x), float(y)
        if not (abs(x - y) <= TOL or (np.isnan(x) and np.isnan(y))):
            raise Violation("%s: score %r changes from %r to %r under the transformation; case %r" % (name, k, x, y, case))


# shifts are exactly representable; 1/32 and 1/64 put lattice times on rounding ties of the 4th/5th decimal (x.xxxx5), where a
# library that rounds TIMES instead of DISTANCES starts to depend on the origin
SHIFTS = [0.0, 0.25, 1.0, 0.0625, 3.5, 10.0, 100.0, 7.015625, 0.03125, 0.015625, 5.09375]


@st.composite
def events_case(draw):
    ref, est = draw(g.event_pair(q=64, lo=5.0, hi=20.0, max_n=10))
    # keywords: any subset of the documented ones at non-default values (the trim time stays at its default here: beats are >= 5 s)
    bkw = R.subset(draw, {k: v for k, v in R.BEAT_KW.items() if k != "min_beat_time"}) if draw(st.booleans()) else {}
    okw = {"window": draw(st.sampled_from([0.025, 0.0625, 0.1, 0.5]))} if draw(st.booleans()) else {}
    return {"ref": ref, "est": est, "shift": draw(st.sampled_from(SHIFTS)), "beat_kw": bkw, "onset_kw": okw}


def pred_events(case, ctx):
    r, e, s = _a(case["ref"]), _a(case["est"]), case["shift"]
    bkw, okw = case["beat_kw"], case["onset_kw"]
    _same("beat.evaluate(%s)" % ", ".join(sorted(bkw)), ctx.call(beat.evaluate, r, e, **bkw), ctx.call(beat.evaluate, r + s, e + s, **bkw), case)
    _same("onset.evaluate(%s)" % ", ".join(sorted(okw)), ctx.call(onset.evaluate, r, e, **okw), ctx.call(onset.evaluate, r + s, e + s, **okw), case)
    # onsets may also move towards the origin
    m = min(case["ref"] + case["est"] + [5.0])
    _same("onset.evaluate(shift to origin)", ctx.call(onset.evaluate, r, e, **okw), ctx.call(onset.evaluate, r - m, e - m, **okw), case)
    if bkw or okw:
        ctx.event("non_default_keywords")
    return len(case["ref"]) + len(case["est"]) >= 3 and s != 0


@st.composite
def beat_kw_case(draw):
    """beat.evaluate with a user-chosen trim time: all beats of both sequences are >= that time before and after the shift"""
    m = draw(st.sampled_from([0.0, 1.0, 2.0, 2.5, 8.0, 5.0]))
    ref, est = draw(g.event_pair(q=64, lo=m, hi=m + 12.0, max_n=10))
    kw = {"min_beat_time": m}
    kw.update(R.subset(draw, {k: v for k, v in R.BEAT_KW.items() if k != "min_beat_time"}))
    return {"ref": ref, "est": est, "shift": draw(st.sampled_from(SHIFTS)), "kw": kw}


def pred_beat_kw(case, ctx):
    r, e, s, kw = _a(case["ref"]), _a(case["est"]), case["shift"], case["kw"]
    s1 = ctx.call(beat.evaluate, r, e, **kw)
    _same("beat.evaluate(%s)" % ", ".join(sorted(kw)), s1, ctx.call(beat.evaluate, r + s, e + s, **kw), case)
    if kw["min_beat_time"] != 5.0:
        ctx.event("non_default_trim_time")
    return len(case["ref"]) + len(case["est"]) >= 3 and s != 0


@st.composite
def notes_case(draw):
    c = draw(gt.notes_case())
    c["shift"] = draw(st.sampled_from(SHIFTS + [0.03125, 0.03125, 0.09375, 0.09375]))
    if draw(st.booleans()):
        c["onset_tolerance"] = draw(st.sampled_from([0.0625, 0.0625, 0.125]))    # on the lattice: pairs exactly at the tolerance exist
    return c


def pred_notes(case, ctx):
    from checks.c05 import _arrs
    ri, rp, _ = _arrs(case["ref"])
    ei, ep, _ = _arrs(case["est"])
    s = case["shift"]
    kw = dict(onset_tolerance=case["onset_tolerance"], pitch_tolerance=case["pitch_tolerance"], offset_min_tolerance=case["offset_min_tolerance"], strict=case["strict"])
    if case["offset_ratio"] is not None:
        kw["offset_ratio"] = case["offset_ratio"]
    s0 = ctx.call(transcription.evaluate, ri, rp, ei, ep, **kw)
    pr_keys = [k for k in s0 if "Overlap" not in k]
    _same("transcription.evaluate (time shift)", s0, ctx.call(transcription.evaluate, ri + s, rp, ei + s, ep, **kw), case, pr_keys)
    rperm, eperm = list(case["rperm"]), list(case["eperm"])
    s2 = ctx.call(transcription.evaluate, ri[rperm], rp[rperm], ei[eperm], ep[eperm], **kw)
    _same("transcription.evaluate (note order)", s0, s2, case, pr_keys)
    nonid = s != 0 or rperm != sorted(rperm) or eperm != sorted(eperm)
    return len(case["ref"]) + len(case["est"]) >= 3 and nonid


@st.composite
def multipitch_case(draw):
    c = draw(gp.multipitch_pair())
    c["shift"] = draw(st.sampled_from(SHIFTS))
    c["seed"] = draw(st.integers(0, 10 ** 6))
    return c


def pred_multipitch(case, ctx):
    rt, et, s = _a(case["ref_time"]), _a(case["est_time"]), case["shift"]
    rf, ef = R.hz_frames(case["ref_freqs"]), R.hz_frames(case["est_freqs"])
    w = case["window"]
    m0 = ctx.call(multipitch.metrics, rt, rf, et, ef, window=w)
    _same("multipitch.metrics (time shift)", m0, ctx.call(multipitch.metrics, rt + s, rf, et + s, ef, window=w), case)
    rs = np.random.RandomState(case["seed"])       # data: a pure function of the drawn integer
    rf2 = [f[rs.permutation(len(f))] for f in rf]
    ef2 = [f[rs.permutation(len(f))] for f in ef]
    _same("multipitch.metrics (frequency order inside frames)", m0, ctx.call(multipitch.metrics, rt, rf2, et, ef2, window=w), case)
    n = sum(len(f) for f in rf) + sum(len(f) for f in ef)
    return n >= 3 and (s != 0 or any(len(f) > 1 for f in rf + ef))


@st.composite
def alignment_case(draw):
    c = draw(gt.alignment_case())
    c["shift"] = draw(st.sampled_from(SHIFTS))
    return c


def pred_alignment(case, ctx):
    r, e, s = _a(case["ref"]), _a(case["est"]), case["shift"]
    w = case["window"]
    _same("alignment.percentage_correct", ctx.call(alignment.percentage_correct, r, e, window=w), ctx.call(alignment.percentage_correct, r + s, e + s, window=w), case)
    _same("alignment.absolute_error", ctx.call(alignment.absolute_error, r, e), ctx.call(alignment.absolute_error, r + s, e + s), case)
    _same("alignment.karaoke_perceptual_metric", ctx.call(alignment.karaoke_perceptual_metric, r, e), ctx.call(alignment.karaoke_perceptual_metric, r + s, e + s), case)
    if case["ref"][0] != case["ref"][-1]:
        _same("alignment.percentage_correct_segments (MIREX)", ctx.call(alignment.percentage_correct_segments, r, e),
              ctx.call(alignment.percentage_correct_segments, r + s, e + s), case)
    return len(case["ref"]) >= 3 and s != 0


@st.composite
def pattern_case(draw):
    c = draw(gt.pattern_case())
    c["shift"] = draw(st.sampled_from([0.0, 1.0, 0.5, 16.0, 100.0]))
    c["perm"] = draw(st.permutations(list(range(len(c["ref"])))))
    c["extra_kw"] = R.subset(draw, {"thres": st.sampled_from([0.5, 0.6, 0.25]), "tol": st.sampled_from([0.01, 0.1])})
    return c


def pred_pattern(case, ctx):
    Rr, Ee, s = case["ref"], case["est"], case["shift"]
    a, b = R.tuples(Rr), R.tuples(Ee)
    sh = lambda P: [[[(nt[0] + s, nt[1]) for nt in o] for o in occ] for occ in P]
    kw = {"n": case["n"]}
    if case.get("extra_kw"):
        kw.update(case["extra_kw"])
        ctx.event("pattern_keywords:" + "+".join(sorted(case["extra_kw"])))
    s0 = ctx.call(pattern.evaluate, a, b, **kw)
    _same("pattern.evaluate (onset shift)", s0, ctx.call(pattern.evaluate, sh(a), sh(b), **kw), case)
    perm = list(case["perm"])
    _same("pattern.evaluate (reference pattern order)", s0, ctx.call(pattern.evaluate, [a[i] for i in perm], b, **kw), case)
    return len(a) + len(b) >= 3 and (s != 0 or perm != sorted(perm))


@st.composite
def chord_case(draw):
    c = draw(R.chord_case())
    c["shift"] = draw(st.sampled_from(SHIFTS))
    return c


def pred_chord(case, ctx):
    args, _ = R.build("chord", case)
    s = case["shift"]
    s0 = ctx.call(chord.evaluate, *args)
    s1 = ctx.call(chord.evaluate, args[0] + s, args[1], args[2] + s, args[3])
    _same("chord.evaluate (time shift)", s0, s1, case)
    return len(args[1]) + len(args[3]) >= 3 and s != 0


def pred_tempo(case, ctx):
    r, w, e = _a(case["ref"]), case["weight"], _a(case["est"])
    _same("tempo.detection (order of the two estimated tempi)", [float(x) for x in ctx.call(tempo.detection, r, w, e, tol=case["tol"])],
          [float(x) for x in ctx.call(tempo.detection, r, w, e[::-1].copy(), tol=case["tol"])], case)
    return case["est"][0] != case["est"][1]


SHORT_NAMES = ["n", "no", "non", "none", "nan", "null", "x", "k", "m", "silence", "end", "0", "1", "-1", "t_min", "a b"]


WS_NAMES = ["seg", "seg ", " seg", "seg\t", "s eg", " seg ", "seg\u00a0", "se g", "s\u00e9g", "se\u0301g"]     # the last two: composed / decomposed spelling of the same glyphs


def _bijection(labels, seed, tag, short=False):
    rs = np.random.RandomState(seed)
    names = {}
    out = []
    pool = list(rs.permutation(SHORT_NAMES)) if short else None
    if short and seed % 3 == 0:
        pool = list(rs.permutation(WS_NAMES))      # distinct names that only differ in surrounding / inner white space
    for l in labels:
        k = l.lower()
        if k not in names:
            if short and len(names) < len(pool):
                names[k] = str(pool[len(names)])
            else:
                names[k] = "%ssection_%d%s" % (tag, len(names), "xyz"[len(names) % 3])   # long common prefix: truncating or partially comparing names would merge them
        nm = names[k]
        out.append(nm.upper() if rs.rand() < 0.4 else nm)
    return out


@st.composite
def labels_case(draw):
    c = draw(gs.segmentation_pair())
    c["seed"] = draw(st.integers(0, 10 ** 6))
    c["marginal"] = draw(st.booleans())
    # an annotation may leave a stretch unlabelled: drop one interior segment (first start and last end stay in place)
    for side in ("ref", "est"):
        iv = c[side + "_iv"]
        if len(iv) >= 3 and draw(st.integers(0, 3)) == 0:
            k = draw(st.integers(1, len(iv) - 2))
            c[side + "_iv"] = iv[:k] + iv[k + 1:]
            c[side + "_lab"] = c[side + "_lab"][:k] + c[side + "_lab"][k + 1:]
            c["gap"] = True
    # new names: long ones with a common prefix, or short everyday ones (incl. words a library might use as a sentinel)
    c["short_names"] = draw(st.booleans())
    return c


def pred_segment_labels(case, ctx):
    a, al, b, bl, fs = _a(case["ref_iv"]), case["ref_lab"], _a(case["est_iv"]), case["est_lab"], case["frame_size"]
    if int(np.floor(case["ref_iv"][-1][1] / fs)) < 1:
        return False
    al2, bl2 = _bijection(al, case["seed"], "P", case.get("short_names", False)), _bijection(bl, case["seed"] + 1, "Q", case.get("short_names", False))
    if case.get("gap"):
        ctx.event("annotation_with_an_unlabelled_gap")
    if case.get("short_names"):
        ctx.event("short_everyday_names")
    for fn in (segment.pairwise, segment.rand_index, segment.ari, segment.mutual_information, segment.nce, segment.vmeasure):
        kw = {"frame_size": fs}
        if fn in (segment.pairwise, segment.nce, segment.vmeasure):
            kw["beta"] = case["beta"]
        if fn is segment.nce:
            kw["marginal"] = case["marginal"]
        try:
            _same("segment.%s (label bijection)" % fn.__name__, ctx.call(fn, a, al, b, bl, **kw), ctx.call(fn, a, al2, b, bl2, **kw), case)
        except Violation as v:
            # KF-15: frames of an unlabelled gap carry the label None, which index_labels turns into the string 'none' - the same cluster
            # as a segment the user named "none" / "None".  Exactly that coincidence is known; any other name must not matter.
            if case.get("gap") and any(x.lower() == "none" for x in list(al) + list(bl) + al2 + bl2):
                ctx.known("c08.segment:label_named_none_merges_with_unlabelled_gap", str(v)[:200])
                return False
            raise
    return len(al) + len(bl) >= 3


@st.composite
def hier_labels_case(draw):
    T = draw(st.integers(4, 32)) / 4
    ri, rl = draw(gs.hierarchy(T))
    ei, el = draw(gs.hierarchy(T))
    return {"ref": {"iv": ri, "lab": rl}, "est": {"iv": ei, "lab": el}, "frame_size": draw(st.sampled_from([0.25, 0.5, 1.0])), "seed": draw(st.integers(0, 10 ** 6)),
            "kw": R.subset(draw, {"beta": st.sampled_from([0.5, 2.0]), "window": st.sampled_from([1.0, 2.0, 4.0])})}


@st.composite
def many_labels_case(draw):
    """a hierarchy whose finest level gives every segment its own label (beat-like layer, or boundary-only data named by
    util.generate_labels): several hundred distinct labels in ONE level"""
    n = draw(st.sampled_from([40, 257, 300, 520]))
    return {"n": n, "seed": draw(st.integers(0, 10 ** 6)), "which": draw(st.sampled_from(["ref", "est", "both"]))}


def pred_many_labels(case, ctx):
    rs = np.random.RandomState(case["seed"])
    n = case["n"]
    T = n * 0.5
    fine = np.c_[np.arange(n) * 0.5, np.arange(1, n + 1) * 0.5]

    def coarse(k):
        b = np.unique(np.r_[0.0, T, rs.randint(1, n, k) * 0.5])
        return np.c_[b[:-1], b[1:]]
    c1, c2 = coarse(6), coarse(9)
    uniq = ["s%d" % i for i in rs.permutation(n)]
    few = lambda m: list(rs.choice(list("abcd"), m))
    ri, rl = [c1, fine], [few(len(c1)), list(uniq) if case["which"] in ("ref", "both") else few(n)]
    ei, el = [c2, fine], [few(len(c2)), list(uniq[::-1]) if case["which"] in ("est", "both") else few(n)]
    flat_r, flat_e = [x for l in rl for x in l], [x for l in el for x in l]
    mr = dict(zip([x.lower() for x in flat_r], [y.lower() for y in _bijection(flat_r, case["seed"], "P")]))
    me = dict(zip([x.lower() for x in flat_e], [y.lower() for y in _bijection(flat_e, case["seed"] + 1, "Q")]))
    rl2 = [[mr[x.lower()] for x in l] for l in rl]
    el2 = [[me[x.lower()].upper() for x in l] for l in el]
    _same("hierarchy.lmeasure (label bijection, %d distinct labels in one level)" % n, ctx.call(hierarchy.lmeasure, ri, rl, ei, el, frame_size=0.5),
          ctx.call(hierarchy.lmeasure, ri, rl2, ei, el2, frame_size=0.5), case)
    return n > 256


def pred_hier_labels(case, ctx):
    ri = [_a(l).reshape(-1, 2) for l in case["ref"]["iv"]]
    ei = [_a(l).reshape(-1, 2) for l in case["est"]["iv"]]
    rl, el = case["ref"]["lab"], case["est"]["lab"]
    # one bijection per annotation, applied consistently across its levels
    flat_r = [x for l in rl for x in l]
    flat_e = [x for l in el for x in l]
    mr = dict(zip([x.lower() for x in flat_r], [y.lower() for y in _bijection(flat_r, case["seed"], "P")]))
    me = dict(zip([x.lower() for x in flat_e], [y.lower() for y in _bijection(flat_e, case["seed"] + 1, "Q")]))
    rl2 = [[mr[x.lower()].upper() if i % 2 else mr[x.lower()] for i, x in enumerate(l)] for l in rl]
    el2 = [[me[x.lower()] for x in l] for l in el]
    fs = case["frame_size"]
    kw = dict(case["kw"])
    lkw = {k: v for k, v in kw.items() if k == "beta"}
    _same("hierarchy.lmeasure (label bijection)", ctx.call(hierarchy.lmeasure, ri, rl, ei, el, frame_size=fs, **lkw), ctx.call(hierarchy.lmeasure, ri, rl2, ei, el2, frame_size=fs, **lkw), case)
    _same("hierarchy.evaluate (label bijection)", ctx.call(hierarchy.evaluate, ri, rl, ei, el, frame_size=fs, **kw), ctx.call(hierarchy.evaluate, ri, rl2, ei, el2, frame_size=fs, **kw), case)
    return len(flat_r) + len(flat_e) >= 3


SUBPROPS = [
    SubProp("beat_onset_shift", pred_events, strategy=events_case, n=(800, 20000), shards=(2, 8), floor=0.3, rule="time shift; NT = >= 3 events and shift != 0"),
    SubProp("beat_shift_keywords", pred_beat_kw, strategy=beat_kw_case, n=(400, 10000), shards=(2, 8), floor=0.3,
            rule="time shift with a user-chosen min_beat_time (0..8 s; beats all >= it) and other beat keywords; NT = >= 3 events and shift != 0"),
    SubProp("transcription_shift_order", pred_notes, strategy=notes_case, n=(800, 20000), shards=(2, 8), floor=0.3, rule="time shift and note permutation; NT = >= 3 notes and a non-identity transformation"),
    SubProp("multipitch_shift_order", pred_multipitch, strategy=multipitch_case, n=(700, 15000), shards=(2, 8), floor=0.3, rule="time shift and frequency order within frames"),
    SubProp("alignment_shift", pred_alignment, strategy=alignment_case, n=(600, 10000), shards=(1, 4), floor=0.2, rule="time shift incl. MIREX PCS"),
    SubProp("pattern_shift_order", pred_pattern, strategy=pattern_case, n=(600, 12000), shards=(4, 8), floor=0.3, rule="onset shift and reference pattern order"),
    SubProp("chord_shift", pred_chord, strategy=chord_case, n=(400, 8000), shards=(2, 8), floor=0.3, rule="time shift of chord annotations"),
    SubProp("tempo_order", pred_tempo, strategy=gt.tempo_case, n=(400, 6000), shards=(1, 2), floor=0.3, rule="order of the two estimated tempi"),
    SubProp("segment_label_bijection", pred_segment_labels, strategy=labels_case, n=(600, 12000), shards=(4, 8), floor=0.3, rule="independent label bijections with random capitalisation"),
    SubProp("hierarchy_label_bijection", pred_hier_labels, strategy=hier_labels_case, n=(250, 5000), shards=(4, 8), floor=0.3, rule="label bijections per annotation across levels"),
    SubProp("hierarchy_many_labels", pred_many_labels, strategy=many_labels_case, n=(10, 120), shards=(8, 16), floor=0.3,
            rule="two-level hierarchies whose finest level has 40..520 uniquely labelled segments (data from a drawn seed), labels renamed by independent bijections; NT = more than 256 distinct labels in one level"),
]
