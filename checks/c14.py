"""C14 -- valid annotations are always scored; malformed ones are rejected cleanly."""
import numpy as np
from hypothesis import strategies as st

from gens import registry as R
from vlib.runner import SubProp, Violation

import mir_eval
from mir_eval import (alignment, beat, chord, hierarchy, key, melody, multipitch, onset, pattern, segment, separation, tempo, transcription,
                      transcription_velocity, util)
from checks.c03 import RECIPES

PROPERTY_ID = "C14"
SCALE = (2, 3)   # budget multiplier (quick, thorough) applied to the n=(...) of every generated sub-property
LEVEL = "fault_enumeration"
RULE = ("valid family: the task generators of C01 (empty sides where a score is defined, single items, duplicate times, estimates starting "
        "earlier / running longer / disjoint, boundaries on the reference's start or end, window == frame_size, one frame, identical; values exactly on a validator limit) through "
        "evaluate() and every public metric function -- must return; fault family: one fault from a catalogue transcribed from the validators "
        "applied to a valid input, at every entry point whose documented pre-processing does not legitimately repair it -- must raise ValueError "
        "(InvalidChordException for chord labels) and nothing else; non-trivial = valid case in a named coincidence/degenerate class, every "
        "(entry point, fault) execution of the fault family; distinct by SHA-1")
ASSUMPTIONS = [
    "the fault catalogue is a transcription of util.validate_* and each task's validate*; faults that evaluate()'s documented pre-processing repairs "
    "(negative or over-long estimate intervals are cropped, spans are padded) are not applied at evaluate() level",
    "out of the valid domain by documentation and not generated: empty reference for segment/chord/hierarchy.evaluate, one alignment timestamp without duration, "
    "both reference tempi 0, goto_threshold >= 1, p_score_threshold > 1",
    "four open known findings (KF-07..KF-10) are attributed by (entry point, fault, outcome) signature; any other outcome is a violation",
]
ICE = chord.InvalidChordException


# ------------------------------------------------------------------ valid family

def make_valid(task):
    mod = R.module(task)
    recipe = RECIPES[task]

    def pred(case, ctx):
        args, kw = R.build(task, case)
        ctx.call(mod.evaluate, *args, **kw)
        args2, kw2 = R.build(task, case)
        ctx.call(recipe, args2, kw2)           # every public metric function, on the documented pre-processing
        shape = case["shape"].split(":")
        ctx.event("shape:" + shape[0])
        if len(shape) > 1:
            ctx.event("span:" + shape[1])
        return shape[0] != "regular" or len(shape) > 1
    return pred


@st.composite
def separation_valid_case(draw):
    """Valid separation input: every source is non-silent over the whole signal; a source may pause inside one analysis window."""
    c = {"seed": draw(st.integers(0, 10 ** 6)), "nsrc": draw(st.sampled_from([2, 2, 3])), "win": draw(st.sampled_from([300, 400])),
         "nwin": draw(st.integers(2, 3)), "hop_div": draw(st.sampled_from([1, 1, 2])),
         "pause": draw(st.sampled_from(["none", "ref", "ref", "est", "est", "all_ref"])), "images": draw(st.booleans())}
    c["pause_src"] = draw(st.integers(0, c["nsrc"] - 1))
    c["pause_win"] = draw(st.integers(0, c["nwin"] - 1))
    return c


def pred_valid_separation(case, ctx):
    rs = np.random.RandomState(case["seed"])
    nsrc, w, nwin = case["nsrc"], case["win"], case["nwin"]
    n = w * nwin
    ref = rs.randn(nsrc, n)
    est = ref[::-1] * 0.8 + 0.3 * rs.randn(nsrc, n)
    lo, hi = case["pause_win"] * w, (case["pause_win"] + 1) * w
    if case["pause"] == "ref":
        ref[case["pause_src"], lo:hi] = 0.0
    elif case["pause"] == "est":
        est[case["pause_src"], lo:hi] = 0.0
    elif case["pause"] == "all_ref":
        ref[:, lo:hi] = 0.0
    hop = w // case["hop_div"]
    if case["images"]:
        out = ctx.call(separation.bss_eval_images_framewise, ref, est, window=w, hop=hop)
    else:
        out = ctx.call(separation.bss_eval_sources_framewise, ref, est, window=w, hop=hop)
    want_win = (n - w) // hop + 1       # complete windows of the documented framing
    for o in out[:-1]:
        if np.asarray(o).shape != (nsrc, want_win):
            raise Violation("framewise result has shape %r for %d sources and %d windows; case %r" % (np.asarray(o).shape, nsrc, want_win, case))
    ctx.event("pause:" + case["pause"])
    return case["pause"] in ("ref", "est")


@st.composite
def large_case(draw):
    task = draw(st.sampled_from(["transcription_chain", "transcription_chain", "transcription_chain", "transcription", "beat", "onset", "multipitch", "melody", "segment", "chord", "hierarchy", "alignment", "pattern"]))
    return {"task": task, "n": draw(st.sampled_from([300, 1200, 2500])), "seed": draw(st.integers(0, 10 ** 6))}


def pred_valid_large(case, ctx):
    """Size is an input dimension too: long but perfectly ordinary annotations must be scored."""
    rs = np.random.RandomState(case["seed"])
    n, task = case["n"], case["task"]
    if task == "transcription_chain":
        on = 1.0 + 0.08 * np.arange(n)
        ref = np.c_[on - 0.04, on + 0.01][::-1].copy()
        est = np.c_[on, on + 0.05]
        p = np.full(n, 440.0)
        ctx.call(transcription.evaluate, ref, p, est, p.copy())
        ctx.call(transcription_velocity.evaluate, ref, p, np.full(n, 64.0), est, p.copy(), np.full(n, 70.0))
    elif task == "transcription":
        on = np.sort(rs.randint(0, 16 * n // 4, n) / 16.0)
        ref = np.c_[on, on + rs.randint(1, 9, n) / 16.0]
        k = rs.permutation(n)
        est = ref[k] + rs.choice([0.0, 1 / 32, -1 / 32], (n, 1))
        est[:, 0] = np.maximum(est[:, 0], 0.0)
        est[:, 1] = np.maximum(est[:, 1], est[:, 0] + 1 / 32)
        rp = 440.0 * 2.0 ** (rs.randint(-12, 13, n) / 12.0)
        ctx.call(transcription.evaluate, ref, rp, est, rp[k])
    elif task in ("beat", "onset"):
        t = 5.0 + np.cumsum(rs.choice([0.25, 0.5, 0.5, 0.53125], n))
        e = np.sort(t + rs.choice([0.0, 0.015625, -0.03125, 0.25], n))
        ctx.call(beat.evaluate if task == "beat" else onset.evaluate, t, e)
    elif task == "multipitch":
        t = np.arange(n) * 0.01
        rf = [440.0 * 2.0 ** (rs.randint(-12, 13, rs.randint(0, 4)) / 12.0) for _ in range(n)]
        ef = [f * rs.choice([1.0, 1.01, 2.0], len(f)) for f in rf]
        ctx.call(multipitch.evaluate, t, rf, t + 0.005, ef)
    elif task == "melody":
        m = n * 8
        t = np.arange(m) * 256 / 44100
        f = np.where(rs.rand(m) < 0.3, 0.0, 220.0 * 2.0 ** (rs.randint(-12, 13, m) / 12.0))
        e = f * rs.choice([1.0, 1.02, 2.0, -1.0], m)
        ctx.call(melody.evaluate, t, f, np.arange(m + 50) * 0.01, np.r_[e, np.zeros(50)])
    elif task in ("segment", "chord"):
        n = min(n, 1200) if task == "segment" else n      # the pairwise metrics build (frames x frames) matrices
        b = np.r_[0.0, np.cumsum(rs.choice([0.5, 1.0, 2.5], n))]
        iv = np.c_[b[:-1], b[1:]]
        b2 = np.unique(np.r_[0.0, b[-1], rs.choice(b, n // 2), rs.randint(1, int(b[-1] * 4), n // 4) / 4.0])
        iv2 = np.c_[b2[:-1], b2[1:]]
        if task == "segment":
            ctx.call(segment.evaluate, iv, list(rs.choice(list("abcde"), len(iv))), iv2, list(rs.choice(list("ABC"), len(iv2))), frame_size=0.5)
        else:
            labs = ["C:maj", "A:min", "G:7", "N", "F:maj7/3", "D:min7"]
            ctx.call(chord.evaluate, iv, list(rs.choice(labs, len(iv))), iv2, list(rs.choice(labs, len(iv2))))
    elif task == "hierarchy":
        T = float(n) / 8
        def lv(k):
            b = np.unique(np.r_[0.0, T, rs.randint(1, int(T * 2), k) / 2.0])
            return np.c_[b[:-1], b[1:]]
        ri, ei = [lv(3), lv(12), lv(40)], [lv(5), lv(25)]
        ctx.call(hierarchy.evaluate, ri, [list(rs.choice(list("abc"), len(x))) for x in ri], ei, [list(rs.choice(list("abc"), len(x))) for x in ei], frame_size=0.25)
    elif task == "alignment":
        t = np.cumsum(rs.choice([0.25, 0.5, 1.0], n * 4))
        ctx.call(alignment.evaluate, t, np.sort(t + rs.choice([0.0, 0.125, -0.125, 0.5], len(t))))
    else:
        def occ(k, shift):
            return [(float(shift + i * 0.5), float(60 + (i * 7) % 12)) for i in range(k)]
        P = [[occ(n // 20, 0.0), occ(n // 20, 100.0)], [occ(n // 10, 7.0)]]
        Q = [[occ(n // 20, 0.0), occ(n // 20 + 3, 50.0)], [occ(n // 10 - 1, 7.5)], [occ(5, 1.0)]]
        ctx.call(pattern.evaluate, P, Q)
    ctx.event("task:" + task)
    return n >= 1200


@st.composite
def limit_case(draw):
    return {"task": draw(st.sampled_from(["beat", "onset", "multipitch", "events", "frequencies"])), "n": draw(st.integers(1, 24)),
            "step": draw(st.sampled_from([0.25, 0.5, 0.53125, 1.0, 2.0])), "side": draw(st.sampled_from(["ref", "est", "both"])),
            "ints": draw(st.booleans()), "limit": draw(st.sampled_from([30000.0, 30000.0, 10.0, 0.0, 1e6])), "seed": draw(st.integers(0, 10 ** 6))}


def pred_valid_limit(case, ctx):
    """The validators reject what lies *beyond* a limit (`> max_time`, `|f| > max_freq`, `|f| < min_freq`): a value exactly on the limit is
    valid and must be scored, the next representable value beyond it must be rejected."""
    n, task, rs = case["n"], case["task"], np.random.RandomState(case["seed"])
    step = float(int(case["step"]) or 1) if case["ints"] else case["step"]
    if task in ("beat", "onset", "multipitch"):
        T = 30000.0
        top = T - step * np.arange(n)[::-1]
        low = top - 8.0
        if case["ints"]:
            top, low = top.astype(int), low.astype(int)
        ref, est = (top if case["side"] in ("ref", "both") else low), (top if case["side"] in ("est", "both") else low)
        if task == "multipitch":
            pool = [20.0, 5000.0, 440.0, 20.0 * 2 ** (1 / 12.0)]
            rf = [np.array(rs.choice(pool, rs.randint(0, 4), replace=False)) for _ in ref]
            ef = [np.array(rs.choice(pool, rs.randint(0, 4), replace=False)) for _ in est]
            ctx.call(multipitch.evaluate, ref, rf, est, ef)
            ctx.call(multipitch.validate, ref, rf, est, ef)
            bad = np.array(ref, dtype=float); bad[-1] = np.nextafter(T, np.inf)
            reject(ctx, "multipitch.validate", "just_beyond_max_time", lambda: multipitch.validate(bad, rf, est, ef))
        else:
            mod = beat if task == "beat" else onset
            ctx.call(mod.evaluate, ref, est)
            ctx.call(mod.validate, ref, est)
            ctx.call(mod.f_measure, ref, est)
            bad = np.array(est, dtype=float); bad[-1] = np.nextafter(T, np.inf)
            reject(ctx, task + ".validate", "just_beyond_max_time", lambda: mod.validate(ref, bad))
    elif task == "events":
        L = case["limit"]
        ev = L - step * np.arange(n)[::-1]
        ev = ev[ev >= 0] if L > 0 else np.array([0.0])
        if case["ints"]:
            ev = ev.astype(int)
        ctx.call(util.validate_events, ev, L)
        reject(ctx, "util.validate_events", "just_beyond_max_time", lambda: util.validate_events(np.r_[np.asarray(ev, dtype=float), np.nextafter(L, np.inf)], L))
    else:
        f = np.array([20.0, 5000.0, 440.0] + list(20.0 + rs.randint(0, 4981, n)))
        sg = rs.choice([1.0, -1.0], len(f))
        ctx.call(util.validate_frequencies, f, 5000.0, 20.0)
        ctx.call(util.validate_frequencies, f * sg, 5000.0, 20.0, allow_negatives=True)
        reject(ctx, "util.validate_frequencies", "just_above_max_freq", lambda: util.validate_frequencies(np.r_[f, np.nextafter(5000.0, np.inf)], 5000.0, 20.0))
        reject(ctx, "util.validate_frequencies", "just_below_min_freq", lambda: util.validate_frequencies(np.r_[f, np.nextafter(20.0, 0.0)], 5000.0, 20.0))
    ctx.event("task:" + task)
    ctx.event("dtype:" + ("int" if case["ints"] else "float"))
    return True


def enum_valid_keys(tier, shard, nshards):
    from checks.c04 import all_keys
    ks = all_keys() + ["Fb minor", "C# major", "c# MAJOR".lower().replace("major", "major")]
    return [{"key": k} for i, k in enumerate(dict.fromkeys(ks)) if i % nshards == shard]


def pred_valid_key(case, ctx):
    k = case["key"]
    try:
        key.validate_key(k)
        v = key.weighted_score(k, k)
    except ValueError as e:
        if k == "Fb minor":
            ctx.known("c14.key.validate_key:documented_example_rejected", str(e))
            return True
        raise Violation("key %r (documented form) rejected: %s" % (k, e))
    except Exception as e:
        raise Violation("key %r raised %s" % (k, type(e).__name__))
    if v != 1.0:
        raise Violation("weighted_score(%r, %r) = %r" % (k, k, v))
    return True


# ------------------------------------------------------------------ fault family

def reject(ctx, target, fault, thunk, exc=ValueError):
    try:
        out = thunk()
    except exc:
        ctx.events["rejected"] += 1
        return
    except Exception as e:  # noqa
        sig = "c14.%s:%s:%s" % (target, fault, type(e).__name__)
        ctx.known(sig, "%s on fault '%s' raised %s: %s (ValueError expected)" % (target, fault, type(e).__name__, e))
        return
    sig = "c14.%s:%s:returns" % (target, fault)
    ctx.known(sig, "%s accepted fault '%s' and returned %r" % (target, fault, out if np.ndim(out) == 0 else "a score"))


def _events_base(xs, lo=5.0):
    xs = sorted(set(xs))
    return xs if len(xs) >= 3 else [lo, lo + 0.5, lo + 1.0, lo + 1.75]


def faults_events(task, case, ctx):
    # beats below 5 s are trimmed by beat.evaluate, which could legitimately remove the fault: keep the base above it
    ref = np.array(_events_base([x for x in (case["ref"] or []) if x >= 5.0]))
    est = np.array(_events_base([x for x in (case["est"] or []) if x >= 5.0]))
    fns = {"beat": [("f_measure", beat.f_measure), ("cemgil", beat.cemgil), ("goto", beat.goto), ("p_score", beat.p_score),
                    ("continuity", beat.continuity), ("information_gain", beat.information_gain), ("evaluate", beat.evaluate)],
           "onset": [("f_measure", onset.f_measure), ("evaluate", onset.evaluate)]}[task]
    bads = {"unsorted": lambda x: x[::-1].copy(), "two_dimensional": lambda x: np.stack([x, x]), "column_vector": lambda x: x.reshape(-1, 1),
            "beyond_30000s": lambda x: np.append(x, 30000.5)}
    which = case["fault"]
    empty = np.array([])
    for name, fn in fns:
        for side in ("ref", "est"):
            a, b = (bads[which](ref), est) if side == "ref" else (ref, bads[which](est))
            reject(ctx, "%s.%s" % (task, name), "%s(%s)" % (which, side), lambda fn=fn, a=a, b=b: fn(a, b))
            # the same fault while the OTHER annotation is empty (a valid, scored-as-0 situation): must still be rejected
            a, b = (bads[which](ref), empty) if side == "ref" else (empty, bads[which](est))
            reject(ctx, "%s.%s" % (task, name), "%s(%s),other_side_empty" % (which, side), lambda fn=fn, a=a, b=b: fn(a, b))


def _intervals_base(iv):
    iv = [list(r) for r in iv]
    return iv if len(iv) >= 3 else [[0.0, 1.0], [1.0, 2.5], [2.5, 4.0]]


IV_BADS = {
    "negative_time": lambda a: np.vstack([[-1.0, a[0, 1]], a[1:]]),
    "zero_duration": lambda a: np.vstack([a[:1], [a[0, 1], a[0, 1]], a[1:]]),
    "reversed_interval": lambda a: np.vstack([a[:1], [a[1, 1], a[1, 0]], a[2:]]),
    "one_dimensional": lambda a: a.ravel(),
    "n_by_3": lambda a: np.hstack([a, a[:, :1] + 0.5]),
}


def faults_segment(task, case, ctx):
    ref = np.array(_intervals_base((case["ref"] or {"iv": []})["iv"]))
    est = ref.copy()
    rl = ["a", "b", "c", "d", "e", "f", "g", "h"][:len(ref)]
    el = list(rl)
    which = case["fault"]
    boundary = [("detection", segment.detection), ("deviation", segment.deviation)]
    structure = [("pairwise", segment.pairwise), ("rand_index", segment.rand_index), ("ari", segment.ari), ("mutual_information", segment.mutual_information),
                 ("nce", segment.nce), ("vmeasure", segment.vmeasure)]
    if which in IV_BADS:
        bad = IV_BADS[which](est)
        for name, fn in boundary:
            reject(ctx, "segment." + name, which + "(est)", lambda fn=fn: fn(ref, bad))
            reject(ctx, "segment." + name, which + "(ref)", lambda fn=fn: fn(bad, est))
        for name, fn in structure:
            reject(ctx, "segment." + name, which + "(est)", lambda fn=fn: fn(ref, rl, bad, el))
        if which in ("zero_duration", "reversed_interval", "one_dimensional", "n_by_3"):
            # evaluate() crops negative/over-long estimates (documented) but cannot repair these
            reject(ctx, "segment.evaluate", which + "(est)", lambda: segment.evaluate(ref, rl, bad, el))
    elif which == "label_count":
        for name, fn in structure + [("evaluate", segment.evaluate)]:
            reject(ctx, "segment." + name, which, lambda fn=fn: fn(ref, rl, est, el[:-1]))
    elif which == "not_starting_at_0":
        shifted = ref + 1.0
        for name, fn in structure:
            reject(ctx, "segment." + name, which, lambda fn=fn: fn(shifted, rl, shifted, el))
    elif which == "different_ends":
        longer = est.copy()
        longer[-1, 1] += 1.0
        for name, fn in structure:
            reject(ctx, "segment." + name, which, lambda fn=fn: fn(ref, rl, longer, el))


CMP = ["thirds", "thirds_inv", "triads", "triads_inv", "tetrads", "tetrads_inv", "root", "mirex", "majmin", "majmin_inv", "sevenths", "sevenths_inv"]
BAD_LABELS = ["H:maj", "C:foo", "C:maj(", "C/", "", "c:maj", "C:maj/x", "N:maj", "C:(14)"]


def faults_chord(task, case, ctx):
    ref = np.array(_intervals_base((case["ref"] or {"iv": []})["iv"]))
    n = len(ref)
    rl = (["C:maj", "G:7", "N", "A:min"] * 4)[:n]
    est, el = ref.copy(), list(rl)
    which = case["fault"]
    k = case["k"]
    if which == "malformed_label":
        bad = list(rl)
        bad[k % n] = BAD_LABELS[k % len(BAD_LABELS)]
        for name in CMP:
            fn = getattr(chord, name)
            reject(ctx, "chord." + name, which + "(est)", lambda fn=fn: fn(rl, bad), ICE)
            reject(ctx, "chord." + name, which + "(ref)", lambda fn=fn: fn(bad, el), ICE)
        reject(ctx, "chord.evaluate", which + "(est)", lambda: chord.evaluate(ref, rl, est, bad), ICE)
        reject(ctx, "chord.evaluate", which + "(ref)", lambda: chord.evaluate(ref, bad, est, el), ICE)
        reject(ctx, "chord.encode", which, lambda: chord.encode(bad[k % n]), ICE)
        reject(ctx, "chord.validate_chord_label", which, lambda: chord.validate_chord_label(bad[k % n]), ICE)
    elif which == "unequal_label_lists":
        for name in CMP:
            fn = getattr(chord, name)
            reject(ctx, "chord." + name, which, lambda fn=fn: fn(rl, el[:-1]))
    elif which == "weights":
        comp = np.array([1.0, 0.0, -1.0][:n] + [1.0] * max(0, n - 3))
        reject(ctx, "chord.weighted_accuracy", "weights_length", lambda: chord.weighted_accuracy(comp, np.ones(n + 1)))
        w = np.ones(n)
        w[k % n] = -0.5
        reject(ctx, "chord.weighted_accuracy", "negative_weight", lambda: chord.weighted_accuracy(comp, w))
    elif which == "overlapping_intervals":
        ov = ref.copy()
        ov[0, 1] = ov[0, 1] + 0.25 if n > 1 else ov[0, 1]
        # the overlap check belongs to the first argument of directional_hamming_distance:
        # overseg(ref, est) = 1 - dhd(ref, est), underseg(ref, est) = 1 - dhd(est, ref), seg = both
        reject(ctx, "chord.overseg", which + "(ref)", lambda: chord.overseg(ov, est))
        reject(ctx, "chord.underseg", which + "(est)", lambda: chord.underseg(ref, ov))
        reject(ctx, "chord.seg", which + "(ref)", lambda: chord.seg(ov, est))
        reject(ctx, "chord.seg", which + "(est)", lambda: chord.seg(ref, ov))
        reject(ctx, "chord.directional_hamming_distance", which + "(ref)", lambda: chord.directional_hamming_distance(ov, est))
    elif which in ("zero_duration", "reversed_interval", "negative_time"):
        bad = IV_BADS[which](est)
        for name in ("overseg", "underseg", "seg"):
            fn = getattr(chord, name)
            reject(ctx, "chord." + name, which + "(est)", lambda fn=fn: fn(ref, bad))
            reject(ctx, "chord." + name, which + "(ref)", lambda fn=fn: fn(bad, est))
        if which != "negative_time":
            bl = el[:1] + ["N"] + el[1:] if which == "zero_duration" else el
            reject(ctx, "chord.evaluate", which + "(est)", lambda: chord.evaluate(ref, rl, bad, bl))
    elif which == "one_dimensional":
        reject(ctx, "chord.evaluate", which + "(est)", lambda: chord.evaluate(ref, rl, est.ravel(), el))
        reject(ctx, "chord.overseg", which + "(est)", lambda: chord.overseg(ref, est.ravel()))


def faults_melody(task, case, ctx):
    n = 5
    rv = np.array([1.0, 1.0, 0.0, 1.0, 0.5])
    rc = np.array([4800.0, 4900.0, 0.0, 5000.0, 5100.0])
    ev, ec = rv.copy(), rc.copy()
    which = case["fault"]
    fns5 = [("raw_pitch_accuracy", melody.raw_pitch_accuracy), ("raw_chroma_accuracy", melody.raw_chroma_accuracy), ("overall_accuracy", melody.overall_accuracy)]
    fns2 = [("voicing_recall", melody.voicing_recall), ("voicing_false_alarm", melody.voicing_false_alarm), ("voicing_measures", melody.voicing_measures)]
    if which == "unequal_length":
        for name, fn in fns5:
            reject(ctx, "melody." + name, "est_shorter", lambda fn=fn: fn(rv, rc, ev[:-1], ec[:-1]))
            reject(ctx, "melody." + name, "voicing_vs_cent", lambda fn=fn: fn(rv, rc, ev[:-1], ec))
        for name, fn in fns2:
            reject(ctx, "melody." + name, "est_shorter", lambda fn=fn: fn(rv, ev[:-1]))
    elif which == "voicing_out_of_range":
        bad = ev.copy()
        bad[case["k"] % n] = [1.5, -0.25][case["k"] % 2]
        for name, fn in fns5:
            reject(ctx, "melody." + name, which + "(est)", lambda fn=fn: fn(rv, rc, bad, ec))
            reject(ctx, "melody." + name, which + "(ref)", lambda fn=fn: fn(bad, rc, ev, ec))
        for name, fn in fns2:
            reject(ctx, "melody." + name, which, lambda fn=fn: fn(rv, bad))


def faults_multipitch(task, case, ctx):
    t = np.array([0.0, 0.25, 0.5, 0.75])
    f = [np.array([220.0, 330.0]), np.array([]), np.array([440.0]), np.array([262.0, 523.0])]
    which = case["fault"]
    k = case["k"]
    targets = [("metrics", multipitch.metrics), ("evaluate", multipitch.evaluate)]

    def badf(v):
        g = [x.copy() for x in f]
        g[0] = np.array([v, 330.0])
        return g
    for name, fn in targets:
        T = "multipitch." + name
        if which == "unequal_length":
            reject(ctx, T, "times_vs_freqs(est)", lambda fn=fn: fn(t, f, t[:-1], f))
            reject(ctx, T, "times_vs_freqs(ref)", lambda fn=fn: fn(t, f[:-1], t, f))
        elif which == "frequency_range":
            for v, tag in ((10.0, "below_20Hz"), (6000.0, "above_5000Hz")):
                reject(ctx, T, tag + "(est)", lambda fn=fn, v=v: fn(t, f, t, badf(v)))
                reject(ctx, T, tag + "(ref)", lambda fn=fn, v=v: fn(t, badf(v), t, f))
                reject(ctx, T, tag + "(est),reference_empty", lambda fn=fn, v=v: fn(np.array([]), [], t, badf(v)))
                reject(ctx, T, tag + "(ref),estimate_empty", lambda fn=fn, v=v: fn(t, badf(v), np.array([]), []))
        elif which == "negative_frequency":
            reject(ctx, T, which + "(est)", lambda fn=fn: fn(t, f, t, badf(-220.0)))
            reject(ctx, T, which + "(ref)", lambda fn=fn: fn(t, badf(-220.0), t, f))
        elif which == "times":
            reject(ctx, T, "unsorted_times(est)", lambda fn=fn: fn(t, f, t[::-1].copy(), f))
            reject(ctx, T, "two_dimensional_times(ref)", lambda fn=fn: fn(t.reshape(-1, 1), f, t, f))
            reject(ctx, T, "beyond_30000s", lambda fn=fn: fn(t, f, np.array([0.0, 1.0, 2.0, 30001.0]), f))


def faults_transcription(task, case, ctx):
    ri = np.array([[0.0, 1.0], [1.0, 2.0], [2.5, 3.0]])
    rp = np.array([220.0, 440.0, 330.0])
    rv = np.array([60.0, 80.0, 100.0])
    ei, ep, ev = ri.copy(), rp.copy(), rv.copy()
    which = case["fault"]
    vel = task == "transcription_velocity"
    if vel:
        targets = [("precision_recall_f1_overlap", lambda a, b, c, d: transcription_velocity.precision_recall_f1_overlap(a, b, rv[:len(b)] if len(b) <= 3 else rv, c, d, ev[:len(d)] if len(d) <= 3 else ev)),
                   ("evaluate", lambda a, b, c, d: transcription_velocity.evaluate(a, b, rv[:len(b)] if len(b) <= 3 else rv, c, d, ev[:len(d)] if len(d) <= 3 else ev))]
    else:
        targets = [("precision_recall_f1_overlap", transcription.precision_recall_f1_overlap), ("evaluate", transcription.evaluate)]
    T = task + "."
    if which == "pitch_count":
        for name, fn in targets:
            reject(ctx, T + name, which + "(est)", lambda fn=fn: fn(ri, rp, ei, ep[:-1]) if not vel else transcription_velocity.evaluate(ri, rp, rv, ei, ep[:-1], ev[:-1]))
            reject(ctx, T + name, which + "(ref)", lambda fn=fn: fn(ri, rp[:-1], ei, ep) if not vel else transcription_velocity.evaluate(ri, rp[:-1], rv[:-1], ei, ep, ev))
    elif which == "non_positive_pitch":
        bad = ep.copy()
        bad[case["k"] % 3] = [0.0, -220.0][case["k"] % 2]
        e_iv, e_p = np.zeros((0, 2)), np.array([])
        for name, fn in targets:
            reject(ctx, T + name, which + "(est)", lambda fn=fn: fn(ri, rp, ei, bad))
            reject(ctx, T + name, which + "(ref)", lambda fn=fn: fn(ri, bad, ei, ep))
            if not vel:
                # an empty reference / estimate is valid (scored 0); the fault on the other side must still be rejected
                reject(ctx, T + name, which + "(est),reference_empty", lambda fn=fn: fn(e_iv, e_p, ei, bad))
                reject(ctx, T + name, which + "(ref),estimate_empty", lambda fn=fn: fn(ri, bad, e_iv, e_p))
                reject(ctx, T + name, "pitch_count(est),reference_empty", lambda fn=fn: fn(e_iv, e_p, ei, ep[:-1]))
                reject(ctx, T + name, "pitch_count(ref),estimate_empty", lambda fn=fn: fn(ri, rp[:-1], e_iv, e_p))
        if vel:
            e_v = np.array([])
            reject(ctx, T + "evaluate", which + "(est),reference_empty", lambda: transcription_velocity.evaluate(e_iv, e_p, e_v, ei, bad, ev))
            reject(ctx, T + "evaluate", "negative_velocity(est),reference_empty", lambda: transcription_velocity.evaluate(e_iv, e_p, e_v, ei, ep, -ev))
            reject(ctx, T + "evaluate", "velocity_count(ref),estimate_empty", lambda: transcription_velocity.evaluate(ri, rp, rv[:-1], e_iv, e_p, e_v))
    elif which in IV_BADS:
        bad = IV_BADS[which](ei)
        bp = ep if len(bad) == 3 or bad.ndim == 1 else np.append(ep, 440.0)
        for name, fn in targets:
            if vel and len(bp) != 3:
                continue
            reject(ctx, T + name, which + "(est)", lambda fn=fn: fn(ri, rp, bad, bp))
            if not vel:
                reject(ctx, T + name, which + "(est),reference_empty", lambda fn=fn: fn(np.zeros((0, 2)), np.array([]), bad, bp))
        if not vel:
            for name, fn in (("onset_precision_recall_f1", transcription.onset_precision_recall_f1), ("offset_precision_recall_f1", transcription.offset_precision_recall_f1)):
                reject(ctx, T + name, which + "(est)", lambda fn=fn: fn(ri, bad))
    elif which == "velocity" and vel:
        bad = ev.copy()
        bad[case["k"] % 3] = -1.0
        reject(ctx, T + "evaluate", "negative_velocity(est)", lambda: transcription_velocity.evaluate(ri, rp, rv, ei, ep, bad))
        reject(ctx, T + "evaluate", "negative_velocity(ref)", lambda: transcription_velocity.evaluate(ri, rp, bad, ei, ep, ev))
        reject(ctx, T + "evaluate", "velocity_count(est)", lambda: transcription_velocity.evaluate(ri, rp, rv, ei, ep, ev[:-1]))
        reject(ctx, T + "precision_recall_f1_overlap", "velocity_count(ref)", lambda: transcription_velocity.precision_recall_f1_overlap(ri, rp, rv[:-1], ei, ep, ev))


def faults_tempo(task, case, ctx):
    r, w, e = np.array([60.0, 120.0]), 0.5, np.array([61.0, 119.0])
    k = case["k"]
    for name, fn in (("detection", tempo.detection), ("evaluate", tempo.evaluate)):
        T = "tempo." + name
        reject(ctx, T, "three_reference_tempi", lambda fn=fn: fn(np.array([60.0, 90.0, 120.0]), w, e))
        reject(ctx, T, "one_estimated_tempo", lambda fn=fn: fn(r, w, np.array([60.0])))
        reject(ctx, T, "negative_tempo(est)", lambda fn=fn: fn(r, w, np.array([-60.0, 120.0])))
        reject(ctx, T, "negative_tempo(ref)", lambda fn=fn: fn(np.array([-60.0, 120.0]), w, e))
        reject(ctx, T, "nan_tempo", lambda fn=fn: fn(r, w, np.array([np.nan, 120.0])))
        reject(ctx, T, "inf_tempo", lambda fn=fn: fn(np.array([60.0, np.inf]), w, e))
        reject(ctx, T, "reference_all_zero", lambda fn=fn: fn(np.array([0.0, 0.0]), w, e))
        reject(ctx, T, "weight_out_of_range", lambda fn=fn: fn(r, [1.5, -0.1][k % 2], e))
        reject(ctx, T, "tol_out_of_range", lambda fn=fn: fn(r, w, e, tol=[1.5, -0.1][k % 2]))


BAD_KEYS = ["C", "C major minor", "H major", "C# majr", "X major", "", "major C", "C# Major"]


def faults_key(task, case, ctx):
    bad = BAD_KEYS[case["k"] % len(BAD_KEYS)]
    tag = "malformed_key[%s]" % bad
    reject(ctx, "key.validate_key", tag, lambda: key.validate_key(bad))
    reject(ctx, "key.weighted_score", tag + "(est)", lambda: key.weighted_score("C major", bad))
    reject(ctx, "key.weighted_score", tag + "(ref)", lambda: key.weighted_score(bad, "C major"))
    reject(ctx, "key.evaluate", tag + "(est)", lambda: key.evaluate("C major", bad))


def faults_pattern(task, case, ctx):
    good = [[[(0.0, 60.0), (1.0, 62.0)], [(4.0, 60.0), (5.0, 62.0)]], [[(2.0, 64.0)]]]
    fns = [("standard_FPR", pattern.standard_FPR), ("establishment_FPR", pattern.establishment_FPR), ("occurrence_FPR", pattern.occurrence_FPR),
           ("three_layer_FPR", pattern.three_layer_FPR), ("first_n_three_layer_P", pattern.first_n_three_layer_P),
           ("first_n_target_proportion_R", pattern.first_n_target_proportion_R), ("evaluate", pattern.evaluate)]
    empty_pat = [good[0], []]
    triple = [[[(0.0, 60.0, 1.0), (1.0, 62.0, 1.0)]]]
    single = [[[(0.0,), (1.0,)]]]
    for name, fn in fns:
        T = "pattern." + name
        reject(ctx, T, "pattern_without_occurrence(est)", lambda fn=fn: fn(good, empty_pat))
        reject(ctx, T, "pattern_without_occurrence(ref)", lambda fn=fn: fn(empty_pat, good))
        reject(ctx, T, "note_not_a_pair(est)", lambda fn=fn: fn(good, triple))
        reject(ctx, T, "note_not_a_pair(ref)", lambda fn=fn: fn(single, good))
        reject(ctx, T, "note_not_a_pair(est),reference_empty", lambda fn=fn: fn([], triple))
        reject(ctx, T, "pattern_without_occurrence(ref),estimate_empty", lambda fn=fn: fn(empty_pat, []))


def faults_alignment(task, case, ctx):
    r = np.array([0.5, 1.0, 2.0, 3.5])
    e = np.array([0.6, 1.1, 2.0, 3.0])
    fns = [("absolute_error", alignment.absolute_error), ("percentage_correct", alignment.percentage_correct),
           ("percentage_correct_segments", alignment.percentage_correct_segments), ("karaoke_perceptual_metric", alignment.karaoke_perceptual_metric),
           ("evaluate", alignment.evaluate)]
    for name, fn in fns:
        T = "alignment." + name
        reject(ctx, T, "unequal_length", lambda fn=fn: fn(r, e[:-1]))
        reject(ctx, T, "empty", lambda fn=fn: fn(np.array([]), np.array([])))
        reject(ctx, T, "unsorted(est)", lambda fn=fn: fn(r, e[::-1].copy()))
        reject(ctx, T, "unsorted(ref)", lambda fn=fn: fn(r[::-1].copy(), e))
        reject(ctx, T, "negative(est)", lambda fn=fn: fn(r, np.array([-0.5, 1.1, 2.0, 3.0])))
        reject(ctx, T, "two_dimensional", lambda fn=fn: fn(r.reshape(2, 2), e.reshape(2, 2)))
        reject(ctx, T, "not_an_array", lambda fn=fn: fn(list(r), e))
    reject(ctx, "alignment.percentage_correct_segments", "duration<=0", lambda: alignment.percentage_correct_segments(r, e, duration=0.0))
    reject(ctx, "alignment.percentage_correct_segments", "duration<last_timestamp", lambda: alignment.percentage_correct_segments(r, e, duration=3.0))
    reject(ctx, "alignment.evaluate", "duration<last_timestamp", lambda: alignment.evaluate(r, e, duration=3.2))
    reject(ctx, "alignment.percentage_correct_segments", "single_timestamp_without_duration", lambda: alignment.percentage_correct_segments(r[:1], e[:1]))


def faults_hierarchy(task, case, ctx):
    ri = [np.array([[0.0, 4.0]]), np.array([[0.0, 2.0], [2.0, 4.0]])]
    rl = [["a"], ["b", "c"]]
    ei = [np.array([[0.0, 4.0]]), np.array([[0.0, 1.0], [1.0, 4.0]])]
    el = [["a"], ["b", "c"]]
    k = case["k"]
    fs_bad = [0.0, -0.5][k % 2]
    reject(ctx, "hierarchy.tmeasure", "frame_size<=0", lambda: hierarchy.tmeasure(ri, ei, frame_size=fs_bad))
    reject(ctx, "hierarchy.lmeasure", "frame_size<=0", lambda: hierarchy.lmeasure(ri, rl, ei, el, frame_size=fs_bad))
    reject(ctx, "hierarchy.evaluate", "frame_size<=0", lambda: hierarchy.evaluate(ri, rl, ei, el, frame_size=fs_bad))
    reject(ctx, "hierarchy.tmeasure", "frame_size>window", lambda: hierarchy.tmeasure(ri, ei, frame_size=1.0, window=0.5))
    reject(ctx, "hierarchy.evaluate", "frame_size>window", lambda: hierarchy.evaluate(ri, rl, ei, el, frame_size=1.0, window=0.5))
    longer = [ei[0], np.array([[0.0, 1.0], [1.0, 5.0]])]
    reject(ctx, "hierarchy.tmeasure", "levels_with_different_spans(est)", lambda: hierarchy.tmeasure(ri, longer, frame_size=0.5))
    reject(ctx, "hierarchy.lmeasure", "levels_with_different_spans(ref)", lambda: hierarchy.lmeasure(longer, rl, ei, el, frame_size=0.5))
    late = [np.array([[1.0, 4.0]]), np.array([[1.0, 2.0], [2.0, 4.0]])]
    reject(ctx, "hierarchy.tmeasure", "not_starting_at_0", lambda: hierarchy.tmeasure(late, late, frame_size=0.5))
    bad1d = [ei[0].ravel(), ei[1]]
    reject(ctx, "hierarchy.tmeasure", "one_dimensional(est)", lambda: hierarchy.tmeasure(ri, bad1d, frame_size=0.5))
    reject(ctx, "hierarchy.evaluate", "one_dimensional(est)", lambda: hierarchy.evaluate(ri, rl, bad1d, el, frame_size=0.5))
    reject(ctx, "hierarchy.evaluate", "one_dimensional(ref)", lambda: hierarchy.evaluate(bad1d, rl, ei, el, frame_size=0.5))
    n3 = [np.array([[0.0, 4.0, 4.5]]), np.array([[0.0, 2.0, 2.5], [2.0, 4.0, 4.5]])]
    reject(ctx, "hierarchy.tmeasure", "n_by_3(est)", lambda: hierarchy.tmeasure(ri, n3, frame_size=0.5))
    reject(ctx, "hierarchy.evaluate", "n_by_3(est)", lambda: hierarchy.evaluate(ri, rl, n3, el, frame_size=0.5))


def faults_separation(task, case, ctx):
    rs = np.random.RandomState(case["k"])
    ref = rs.randn(2, 1100)
    est = rs.randn(2, 1100)
    silent = ref.copy()
    silent[1] = 0.0
    fns = [("bss_eval_sources", separation.bss_eval_sources), ("bss_eval_images", separation.bss_eval_images),
           ("bss_eval_sources_framewise", separation.bss_eval_sources_framewise), ("bss_eval_images_framewise", separation.bss_eval_images_framewise),
           ("evaluate", separation.evaluate), ("validate", separation.validate)]
    for name, fn in fns:
        T = "separation." + name
        reject(ctx, T, "silent_reference", lambda fn=fn: fn(silent, est))
        reject(ctx, T, "silent_estimate", lambda fn=fn: fn(ref, silent))
        reject(ctx, T, "shape_mismatch", lambda fn=fn: fn(ref, est[:, :-10]))
        reject(ctx, T, "four_dimensional", lambda fn=fn: fn(ref.reshape(2, 550, 2, 1), est.reshape(2, 550, 2, 1)))


FAULTS = {
    "beat": (faults_events, ["unsorted", "two_dimensional", "column_vector", "beyond_30000s"]),
    "onset": (faults_events, ["unsorted", "two_dimensional", "column_vector", "beyond_30000s"]),
    "segment": (faults_segment, list(IV_BADS) + ["label_count", "not_starting_at_0", "different_ends"]),
    "chord": (faults_chord, ["malformed_label", "malformed_label", "unequal_label_lists", "weights", "overlapping_intervals", "zero_duration",
                             "reversed_interval", "negative_time", "one_dimensional"]),
    "melody": (faults_melody, ["unequal_length", "voicing_out_of_range"]),
    "multipitch": (faults_multipitch, ["unequal_length", "frequency_range", "negative_frequency", "times"]),
    "transcription": (faults_transcription, ["pitch_count", "non_positive_pitch"] + list(IV_BADS)),
    "transcription_velocity": (faults_transcription, ["pitch_count", "non_positive_pitch", "velocity", "zero_duration", "negative_time"]),
    "tempo": (faults_tempo, ["all"]),
    "key": (faults_key, ["all"]),
    "pattern": (faults_pattern, ["all"]),
    "alignment": (faults_alignment, ["all"]),
    "hierarchy": (faults_hierarchy, ["all"]),
    "separation": (faults_separation, ["all"]),
}


def make_fault_strategy(task):
    base = R.STRATEGIES.get(task)

    @st.composite
    def s(draw):
        c = draw(base()) if base is not None and task in ("beat", "onset", "segment", "chord") else {"ref": None, "est": None, "kw": {}, "shape": "fixed"}
        c["fault"] = draw(st.sampled_from(FAULTS[task][1]))
        c["k"] = draw(st.integers(0, 40))
        c.pop("kw", None)
        return c
    return s


def make_fault(task):
    fn = FAULTS[task][0]

    def pred(case, ctx):
        fn(task, case, ctx)
        ctx.event("fault:" + case["fault"])
        return True
    return pred


NV = {"beat": (500, 12000), "onset": (400, 8000), "segment": (400, 10000), "chord": (300, 8000), "hierarchy": (150, 3000), "melody": (400, 8000),
      "multipitch": (300, 6000), "transcription": (400, 8000), "transcription_velocity": (300, 6000), "tempo": (250, 4000), "key": (200, 3000),
      "pattern": (400, 8000), "alignment": (300, 6000)}
SUBPROPS = [SubProp("valid:" + t, make_valid(t), strategy=R.STRATEGIES[t], n=NV[t], shards=(2 if t in ("segment", "hierarchy", "beat") else 1, 8), floor=0.1,
                    rule="valid inputs of mir_eval.%s through evaluate() and every metric function; NT = named coincidence/degenerate class" % t) for t in R.TASKS]
SUBPROPS.append(SubProp("valid:separation_framewise", pred_valid_separation, strategy=separation_valid_case, n=(30, 400), shards=(8, 16), floor=0.2,
                        rule="2-3 Gaussian sources, 2-3 analysis windows, one source pausing (exact zeros) inside one window of the reference or the estimate "
                             "while being non-silent overall; NT = a partially silent window"))
SUBPROPS.append(SubProp("valid:large_inputs", pred_valid_large, strategy=large_case, n=(12, 200), shards=(8, 16), floor=0.3,
                        rule="300 / 1200 / 2500-element (melody: 8x) ordinary annotations of 11 task shapes incl. the repeated-note chain that needs a long alternating path; NT = >= 1200 elements"))
SUBPROPS.append(SubProp("valid:limit_values", pred_valid_limit, strategy=limit_case, n=(300, 4000), shards=(2, 8), floor=0.5,
                        rule="event / frame times ending exactly on MAX_TIME (beat, onset, multipitch; float and integer dtype; reference, estimate or both), "
                             "util.validate_events on its own limit (30000, 10, 0, 1e6), frequencies exactly on MIN_FREQ / MAX_FREQ: must be scored; the next "
                             "representable value beyond the limit must raise ValueError; every case counts"))
SUBPROPS.append(SubProp("valid:key_strings", pred_valid_key, enum=enum_valid_keys, shards=(1, 1), exhaustive=True,
                        rule="every key string of the documented form, incl. the module docstring's own example"))
def make_fault_enum(task):
    def enum(tier, shard, nshards):
        out = []
        for f in dict.fromkeys(FAULTS[task][1]):
            for k in range(2 if task == "separation" else 9):
                out.append({"ref": None, "est": None, "shape": "fixed", "fault": f, "k": k})
        return [c for i, c in enumerate(out) if i % nshards == shard]
    return enum


SUBPROPS += [SubProp("fault:" + t, make_fault(t), strategy=make_fault_strategy(t), enum=make_fault_enum(t), n=(25 if t == "separation" else 120, 200 if t == "separation" else 2000),
                     shards=(1, 2), floor=0.02, rule="single-fault corruptions of a valid %s input at every entry point; each execution counts" % t)
             for t in FAULTS]
