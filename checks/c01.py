"""C01 -- proportion-type scores are finite and lie in [0, 1]."""
import math

import numpy as np
from hypothesis import strategies as st

from gens import registry as R
from oracles import beat as ob
from oracles import clustering as oc
from oracles import pattern as op
from vlib.runner import SubProp, Violation

import mir_eval
from mir_eval import alignment, beat, chord, key, pattern, segment, tempo

PROPERTY_ID = "C01"
SCALE = (3, 2)   # budget multiplier (quick, thorough) applied to the n=(...) of every generated sub-property
LEVEL = "exploration"
RULE = ("for each of the 13 tasks: valid (reference, estimate) pairs with degenerate shapes over-represented (empty side, single element, "
        "duplicates, clusters, disjoint, identical, one-label / all-unique segmentations, estimates spanning more or less than the reference) "
        "and a random subset of the documented keyword parameters; all key pairs and tempo hit configurations enumerated; non-trivial = at "
        "least one side non-empty; distinct by SHA-1 (enumerated cases by construction)")
ASSUMPTIONS = [
    "score kinds (unit / binary / <=1 / >=0 / deviation / conditional P-score / AOR from above) are transcribed from the docstrings",
    "four open known findings (KF-01 Cemgil, KF-02 information gain NaN, KF-03 pairwise/Rand NaN, KF-04 standard_FPR) are attributed only when the "
    "stated trigger condition holds on the input; any other out-of-range value is a violation",
]
EPS = 1e-9

UNIT, BINARY, LE1, NONNEG, DEVIATION, PSCORE, AOR, CEMGIL, INFOGAIN, PAIRWISE, RAND, STDFPR, PERCEPTUAL = range(13)

KINDS = {
    "beat": {"F-measure": UNIT, "Cemgil": CEMGIL, "Cemgil Best Metric Level": CEMGIL, "Goto": BINARY, "P-score": PSCORE,
             "Correct Metric Level Continuous": UNIT, "Correct Metric Level Total": UNIT, "Any Metric Level Continuous": UNIT,
             "Any Metric Level Total": UNIT, "Information gain": INFOGAIN},
    "onset": {"F-measure": UNIT, "Precision": UNIT, "Recall": UNIT},
    "segment": {"Precision@0.5": UNIT, "Recall@0.5": UNIT, "F-measure@0.5": UNIT, "Precision@3.0": UNIT, "Recall@3.0": UNIT, "F-measure@3.0": UNIT,
                "Ref-to-est deviation": DEVIATION, "Est-to-ref deviation": DEVIATION, "Pairwise Precision": PAIRWISE, "Pairwise Recall": PAIRWISE,
                "Pairwise F-measure": PAIRWISE, "Rand Index": RAND, "Adjusted Rand Index": LE1, "Mutual Information": NONNEG,
                "Adjusted Mutual Information": LE1, "Normalized Mutual Information": UNIT, "NCE Over": UNIT, "NCE Under": UNIT, "NCE F-measure": UNIT,
                "V Precision": UNIT, "V Recall": UNIT, "V-measure": UNIT},
    "chord": {k: UNIT for k in ["thirds", "thirds_inv", "triads", "triads_inv", "tetrads", "tetrads_inv", "root", "mirex", "majmin", "majmin_inv",
                                "sevenths", "sevenths_inv", "underseg", "overseg", "seg"]},
    "melody": {k: UNIT for k in ["Voicing Recall", "Voicing False Alarm", "Raw Pitch Accuracy", "Raw Chroma Accuracy", "Overall Accuracy"]},
    "multipitch": {"Precision": UNIT, "Recall": UNIT, "Accuracy": UNIT, "Substitution Error": NONNEG, "Miss Error": NONNEG, "False Alarm Error": NONNEG,
                   "Total Error": NONNEG, "Chroma Precision": UNIT, "Chroma Recall": UNIT, "Chroma Accuracy": UNIT, "Chroma Substitution Error": NONNEG,
                   "Chroma Miss Error": NONNEG, "Chroma False Alarm Error": NONNEG, "Chroma Total Error": NONNEG},
    "transcription": {"Precision": UNIT, "Recall": UNIT, "F-measure": UNIT, "Average_Overlap_Ratio": AOR, "Precision_no_offset": UNIT,
                      "Recall_no_offset": UNIT, "F-measure_no_offset": UNIT, "Average_Overlap_Ratio_no_offset": AOR, "Onset_Precision": UNIT,
                      "Onset_Recall": UNIT, "Onset_F-measure": UNIT, "Offset_Precision": UNIT, "Offset_Recall": UNIT, "Offset_F-measure": UNIT},
    "transcription_velocity": {"Precision": UNIT, "Recall": UNIT, "F-measure": UNIT, "Average_Overlap_Ratio": AOR, "Precision_no_offset": UNIT,
                               "Recall_no_offset": UNIT, "F-measure_no_offset": UNIT, "Average_Overlap_Ratio_no_offset": AOR},
    "tempo": {"P-score": UNIT, "One-correct": BINARY, "Both-correct": BINARY},
    "key": {"Weighted Score": UNIT},
    "pattern": {"F": STDFPR, "P": STDFPR, "R": UNIT, "F_est": UNIT, "P_est": UNIT, "R_est": UNIT, "F_occ.5": UNIT, "P_occ.5": UNIT, "R_occ.5": UNIT,
                "F_occ.75": UNIT, "P_occ.75": UNIT, "R_occ.75": UNIT, "F_3": UNIT, "P_3": UNIT, "R_3": UNIT, "FFP": UNIT, "FFTP_est": UNIT},
    "hierarchy": {k: UNIT for k in ["T-Precision reduced", "T-Recall reduced", "T-Measure reduced", "T-Precision full", "T-Recall full", "T-Measure full",
                                    "L-Precision", "L-Recall", "L-Measure"]},
    "alignment": {"pc": UNIT, "mae": NONNEG, "aae": NONNEG, "pcs": UNIT, "perceptual": PERCEPTUAL},
}


def _num(v):
    """real scalar or None (tuples/arrays are C03's subject; here their elements are checked)"""
    if isinstance(v, (tuple, list)):
        return [float(x) for x in v]
    return [float(v)]


def _unit(name, v):
    if not (math.isfinite(v) and -EPS <= v <= 1 + EPS):
        raise Violation("%s = %r is not a finite real in [0, 1]" % (name, v))


def check_scores(task, scores, case, ctx, ctxinfo):
    kinds = KINDS[task]
    for name, raw in scores.items():
        kind = kinds.get(name)
        if kind is None:
            raise Violation("%s.evaluate returned an undocumented key %r" % (task, name))
        for v in _num(raw):
            full = "%s %s" % (task, name)
            if kind == UNIT:
                _unit(full, v)
            elif kind == BINARY:
                if v not in (0.0, 1.0):
                    raise Violation("%s = %r is not exactly 0 or 1" % (full, v))
            elif kind == LE1:
                if v > 1 + EPS or v == float("inf"):
                    raise Violation("%s = %r exceeds 1" % (full, v))
                if name == "Adjusted Rand Index" and not math.isfinite(v):
                    raise Violation("%s = %r is not finite" % (full, v))
            elif kind == NONNEG:
                if not (math.isfinite(v) and v >= -EPS):
                    raise Violation("%s = %r is not finite and >= 0" % (full, v))
            elif kind == PERCEPTUAL:
                if not (math.isfinite(v) and v >= -EPS):
                    raise Violation("%s = %r is not finite and >= 0" % (full, v))
            elif kind == DEVIATION:
                if math.isnan(v):
                    if not ctxinfo["no_boundaries"]:
                        raise Violation("%s is NaN although both annotations have boundaries" % full)
                elif not (math.isfinite(v) and v >= 0):
                    raise Violation("%s = %r is not finite and >= 0" % (full, v))
                elif ctxinfo["no_boundaries"]:
                    raise Violation("%s = %r although one side has no boundaries (NaN documented)" % (full, v))
            elif kind == AOR:
                if not (math.isfinite(v) and v <= 1 + EPS):
                    raise Violation("%s = %r is not a finite real <= 1" % (full, v))
            elif kind == PSCORE:
                if not (math.isfinite(v) and v >= -EPS):
                    raise Violation("%s = %r is negative or not finite" % (full, v))
                if ctxinfo["pscore_separated"] and v > 1 + EPS:
                    raise Violation("%s = %r > 1 although beats inside each sequence are further apart than twice the window" % (full, v))
            elif kind == CEMGIL:
                if not (math.isfinite(v) and -EPS <= v <= 2 + EPS):
                    raise Violation("%s = %r outside [0, 2]" % (full, v))
                if v > 1 + EPS:
                    if ctxinfo["cemgil_injective"]:
                        raise Violation("%s = %r > 1 although every estimate is the nearest beat of at most one reference beat" % (full, v))
                    ctx.known("c01.beat.cemgil:above_one_when_not_injective", "%s = %r" % (full, v))
            elif kind == INFOGAIN:
                if math.isnan(v):
                    if not ctxinfo["dup_beats"]:
                        raise Violation("%s is NaN without coincident consecutive beats" % full)
                    ctx.known("c01.beat.information_gain:nan_on_zero_interval", full)
                else:
                    _unit(full, v)
            elif kind == PAIRWISE:
                if math.isnan(v):
                    if not ctxinfo["pairwise_undefined"]:
                        raise Violation("%s is NaN although both annotations have a same-label frame pair" % full)
                    ctx.known("c01.segment.pairwise:nan_without_same_label_pair", full)
                else:
                    _unit(full, v)
            elif kind == RAND:
                if math.isnan(v):
                    if not ctxinfo["lt2_frames"]:
                        raise Violation("%s is NaN with >= 2 frames" % full)
                    ctx.known("c01.segment.rand_index:nan_with_fewer_than_2_frames", full)
                else:
                    _unit(full, v)
            elif kind == STDFPR:
                if v > 1 + EPS:
                    if not ctxinfo["std_k_gt_nq"]:
                        raise Violation("%s = %r > 1 although no more reference prototypes matched than there are estimated patterns" % (full, v))
                    ctx.known("c01.pattern.standard_FPR:precision_above_one", "%s = %r" % (full, v))
                elif not (math.isfinite(v) and v >= -EPS):
                    raise Violation("%s = %r is negative or not finite" % (full, v))
    # F-measures lie between their precision and recall
    for f, p, r in FPR.get(task, []):
        if f in scores and p in scores and r in scores:
            fv, pv, rv = (_num(scores[x])[0] for x in (f, p, r))
            if all(math.isfinite(x) for x in (fv, pv, rv)) and not (min(pv, rv) - EPS <= fv <= max(pv, rv) + EPS):
                raise Violation("%s %s = %r is not between its precision %r and recall %r" % (task, f, fv, pv, rv))


FPR = {
    "onset": [("F-measure", "Precision", "Recall")],
    "segment": [("F-measure@0.5", "Precision@0.5", "Recall@0.5"), ("F-measure@3.0", "Precision@3.0", "Recall@3.0"),
                ("Pairwise F-measure", "Pairwise Precision", "Pairwise Recall"), ("NCE F-measure", "NCE Over", "NCE Under"), ("V-measure", "V Precision", "V Recall")],
    "transcription": [("F-measure", "Precision", "Recall"), ("F-measure_no_offset", "Precision_no_offset", "Recall_no_offset"),
                      ("Onset_F-measure", "Onset_Precision", "Onset_Recall"), ("Offset_F-measure", "Offset_Precision", "Offset_Recall")],
    "transcription_velocity": [("F-measure", "Precision", "Recall"), ("F-measure_no_offset", "Precision_no_offset", "Recall_no_offset")],
    "pattern": [("F_est", "P_est", "R_est"), ("F_occ.5", "P_occ.5", "R_occ.5"), ("F_occ.75", "P_occ.75", "R_occ.75"), ("F_3", "P_3", "R_3")],
    "hierarchy": [("T-Measure reduced", "T-Precision reduced", "T-Recall reduced"), ("T-Measure full", "T-Precision full", "T-Recall full"),
                  ("L-Measure", "L-Precision", "L-Recall")],
}


# ------------------------------------------------------------------ trigger conditions of the known findings / conditional bounds

def _cemgil_injective(ref, est, sigma):
    """every estimate is the arg-max of at most one reference(-variation) beat whose contribution exceeds exp(-32)"""
    if not ref or not est:
        return True
    for rv in ob.variations(ref):
        seen = set()
        for a in rv:
            d = [abs(a - b) for b in est]
            j = min(range(len(est)), key=lambda i: d[i])
            if d[j] <= 8 * sigma:
                if j in seen:
                    return False
                seen.add(j)
    return True


def _pscore_separated(ref, est, thr):
    """beats inside each sequence further apart than twice the correlation window (in 10 ms bins, after quantisation)"""
    if len(ref) < 2 or len(est) < 2:
        return True
    off = min(min(ref), min(est))
    R_ = sorted({math.ceil((x - off) * 100 - 1e-9) for x in ref})
    E_ = sorted({math.ceil((x - off) * 100 - 1e-9) for x in est})
    if len(R_) < 2:
        return True
    if len(R_) != len(ref) or len(E_) != len(est):
        return False
    d = sorted(b - a for a, b in zip(R_[:-1], R_[1:]))
    med = d[len(d) // 2] if len(d) % 2 else (d[len(d) // 2 - 1] + d[len(d) // 2]) / 2
    win = int(round(thr * med)) + 1      # +1: be conservative about rounding of the window
    gaps = [b - a for a, b in zip(R_[:-1], R_[1:])] + [b - a for a, b in zip(E_[:-1], E_[1:])]
    return all(g > 2 * win for g in gaps)


def context(task, case, args, kw):
    info = {"no_boundaries": False, "pscore_separated": False, "cemgil_injective": True, "dup_beats": False,
            "pairwise_undefined": False, "lt2_frames": False, "std_k_gt_nq": False}
    if task == "beat":
        mbt = kw.get("min_beat_time", 5.0)
        ref = [x for x in case["ref"] if x >= mbt]
        est = [x for x in case["est"] if x >= mbt]
        info["cemgil_injective"] = _cemgil_injective(ref, est, kw.get("cemgil_sigma", 0.04))
        info["pscore_separated"] = _pscore_separated(ref, est, kw.get("p_score_threshold", 0.2))
        info["dup_beats"] = len(set(ref)) < len(ref) or len(set(est)) < len(est)
    elif task == "segment":
        # work on what evaluate() scores: the span-adjusted annotations
        from mir_eval import util
        ri, rl = util.adjust_intervals(args[0], labels=list(args[1]), t_min=0.0)
        ei, el = util.adjust_intervals(args[2], labels=list(args[3]), t_min=0.0, t_max=ri.max())
        trim = kw.get("trim", False)
        nb_r = len(np.unique(np.round(ri, 5))) - (2 if trim else 0)
        nb_e = len(np.unique(np.round(ei, 5))) - (2 if trim else 0)
        info["no_boundaries"] = nb_r <= 0 or nb_e <= 0
        fs = kw.get("frame_size", 0.1)
        fa = oc.frame_labels(ri.tolist(), rl, fs)
        fb = oc.frame_labels(ei.tolist(), el, fs)
        o = oc.indices(fa, fb) if fa else None
        info["pairwise_undefined"] = (o is None) or o["pw_p"] is None or o["pw_r"] is None
        info["lt2_frames"] = len(fa) < 2
    elif task == "pattern":
        Rr, Ee = case["ref"], case["est"]
        if Rr and Ee:
            k = round(op.standard(Rr, Ee, kw.get("tol", 1e-5))[2] * len(Rr))
            info["std_k_gt_nq"] = k > len(Ee)
    return info


def make_pred(task):
    mod = R.module(task)

    def pred(case, ctx):
        args, kw = R.build(task, case)
        scores = ctx.call(mod.evaluate, *args, **kw)
        info = context(task, case, args, kw)
        check_scores(task, scores, case, ctx, info)
        extra(task, case, args, kw, ctx, info)
        ctx.event("shape:" + case["shape"].split(":")[0])
        nonempty = any(R.sides(case))
        return nonempty
    return pred


def extra(task, case, args, kw, ctx, info):
    """Public metric functions whose parameters evaluate() forces: call them directly with drawn values."""
    if task == "segment":
        w = [0.25, 1.0, 0.125][len(case["ref"]["iv"]) % 3]
        from mir_eval import util
        ri, _ = util.adjust_intervals(args[0], labels=list(args[1]), t_min=0.0)
        ei, _ = util.adjust_intervals(args[2], labels=list(args[3]), t_min=0.0, t_max=ri.max())
        p, r, f = ctx.call(segment.detection, ri, ei, window=w, beta=kw.get("beta", 1.0), trim=kw.get("trim", False))
        for nm, v in (("P", p), ("R", r), ("F", f)):
            _unit("segment.detection(window=%r) %s" % (w, nm), float(v))
    elif task == "pattern" and case["ref"] and case["est"]:
        for th in (0.3, 0.9, 1.0):
            out = ctx.call(pattern.occurrence_FPR, args[0], args[1], thres=th)
            for nm, v in zip("FPR", out):
                _unit("pattern.occurrence_FPR(thres=%r) %s" % (th, nm), float(v))
    elif task == "chord":
        for fn in (chord.overseg, chord.underseg, chord.seg):
            ei, _ = mir_eval.util.adjust_intervals(args[2], list(args[3]), args[0].min(), args[0].max(), "N", "N")
            _unit("chord." + fn.__name__, float(ctx.call(fn, args[0], ei)))
    elif task == "alignment":
        _unit("alignment.percentage_correct(window=0)", float(ctx.call(alignment.percentage_correct, args[0], args[1], window=0.0)))


# ------------------------------------------------------------------ enumerated domains

def enum_keys(tier, shard, nshards):
    from checks.c04 import all_keys
    for i, r in enumerate(all_keys()):
        if i % nshards == shard:
            yield {"ref": r}


def pred_keys(case, ctx):
    from checks.c04 import all_keys
    for e in all_keys():
        v = ctx.call(key.weighted_score, case["ref"], e)
        _unit("key.weighted_score(%r, %r)" % (case["ref"], e), float(v))
    return True


def enum_tempo(tier, shard, nshards):
    from checks.c04 import enum_tempo as e4
    return e4(tier, shard, nshards)


def pred_tempo_enum(case, ctx):
    p, one, both = ctx.call(tempo.detection, np.array(case["ref"]), case["weight"], np.array(case["est"]), tol=case["tol"])
    _unit("tempo P-score", float(p))
    for nm, v in (("One-correct", one), ("Both-correct", both)):
        if v not in (0, 1, True, False):
            raise Violation("tempo %s = %r is not binary" % (nm, v))
    if both and not one:
        raise Violation("tempo both-correct without one-correct")
    return True


@st.composite
def wa_case(draw):
    n = draw(st.integers(1, 8))
    return {"comp": draw(st.lists(st.sampled_from([-1.0, 0.0, 1.0]), min_size=n, max_size=n)),
            "w": [draw(st.sampled_from([0.0, 0.0, 0.25, 1.0, 2.5])) for _ in range(n)]}


def pred_weighted_accuracy(case, ctx):
    c, w = np.array(case["comp"]), np.array(case["w"])
    v = float(ctx.call(chord.weighted_accuracy, c, w))
    comparable_weight = sum(x for x, y in zip(case["w"], case["comp"]) if y >= 0)
    if math.isnan(v):
        if comparable_weight == 0 and sum(case["w"]) > 0 and any(y >= 0 for y in case["comp"]):
            ctx.known("c01.chord.weighted_accuracy:nan_when_comparable_weight_is_zero", repr(case))
            return True
        raise Violation("chord.weighted_accuracy(%r, %r) is NaN" % (case["comp"], case["w"]))
    _unit("chord.weighted_accuracy", v)
    return sum(case["w"]) > 0


N = {"beat": (700, 20000), "onset": (500, 10000), "segment": (500, 12000), "chord": (400, 10000), "hierarchy": (250, 5000), "melody": (500, 12000),
     "multipitch": (400, 10000), "transcription": (500, 12000), "transcription_velocity": (400, 10000), "tempo": (400, 8000), "key": (300, 5000),
     "pattern": (500, 12000), "alignment": (400, 8000)}
SUBPROPS = [SubProp(t, make_pred(t), strategy=R.STRATEGIES[t], n=N[t], shards=(2 if t in ("beat", "segment", "hierarchy") else 1, 8), floor=0.25,
                    rule="evaluate() and parameterised metric functions of mir_eval.%s; NT = at least one side non-empty" % t) for t in R.TASKS]
SUBPROPS += [
    SubProp("chord_weighted_accuracy", pred_weighted_accuracy, strategy=wa_case, n=(600, 8000), shards=(1, 2), floor=0.2,
            rule="weighted_accuracy on comparison vectors over {-1,0,1} with non-negative weights incl. zeros; NT = some weight > 0"),
    SubProp("key_pairs_exhaustive", pred_keys, enum=enum_keys, shards=(2, 4), exhaustive=True, rule="every valid key string pair"),
    SubProp("tempo_hit_configurations", pred_tempo_enum, enum=enum_tempo, shards=(2, 4), exhaustive=True, rule="enumerated hit configurations"),
]
