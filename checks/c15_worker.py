"""Fresh-process executor for C15: reads a JSON list of steps on stdin, runs them in order in a new interpreter
(purity wrappers installed), prints {step key: result digest}."""
import json
import os
import sys
import warnings

sys.path.insert(0, os.path.dirname(os.path.dirname(os.path.abspath(__file__))))


def main():
    warnings.simplefilter("ignore")
    from vlib import jsonio
    from vlib.runner import import_mir_eval, Ctx
    import_mir_eval()
    from checks import c15
    steps = jsonio.dec(json.loads(sys.stdin.read()))
    h = c15.History(Ctx("C15", "fresh_process"))
    for s in steps:
        h.run(s)
    sys.stdout.write(json.dumps(h.model))


if __name__ == "__main__":
    main()
