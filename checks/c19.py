"""C19 -- BSS-eval decomposition, invariances and framewise consistency."""
import itertools

import numpy as np
from hypothesis import strategies as st

from vlib.runner import SubProp, Violation

from mir_eval import separation as S

PROPERTY_ID = "C19"
LEVEL = "exploration"
RULE = ("sources: nsrc 1-3, nchan 1-2, length 2*nsrc*512 + [0,300], i.i.d. Gaussian from a drawn integer seed; estimates = mixing matrix x "
        "references + noise, FIR-filtered references, permuted references + noise, or an exact copy; scale constants in {-0.5, 3, 1e-3}; "
        "framewise: window = 2*nsrc*512, hop = window/2, 2-4 windows, optionally one source zeroed inside one window, also nwin < 2 and empty "
        "input; non-trivial = nsrc >= 2 with a non-identity optimal permutation, a scaled source, or a framewise case with a silent window / "
        "degenerate window count; distinct by SHA-1 of the drawn parameters")
ASSUMPTIONS = [
    "image SDR and ISR are not scale-invariant by the BSS_EVAL definition (e_spat = P_j(est) - s_true) and are deliberately not asserted under scaling; SIR/SAR are",
    "integer PCM input (int16) must give the values of the same samples in float64: converting is a multiplication by 1.0, which the statement covers",
    "short signals (>= 2*nsrc*512 samples) only; conditioning problems of long correlated audio are out of reach of a unit-cost budget",
    "decibel values compared with tolerance 1e-6 dB when below 150 dB; framewise columns must equal the per-window call bit-for-bit",
]
DB_TOL = 1e-6


def make(case):
    """(ref, est) as a pure function of the drawn integers."""
    nsrc, nchan, extra, seed, kind = case["nsrc"], case["nchan"], case["extra"], case["seed"], case["kind"]
    n = case.get("n") or (2 * nsrc * 512 + extra)
    rs = np.random.RandomState(seed)
    shape = (nsrc, n) if nchan == 1 else (nsrc, n, nchan)
    ref = rs.randn(*shape)
    if kind == "copy":
        est = ref.copy()
    elif kind == "mix":
        mix = np.eye(nsrc) + 0.3 * rs.randn(nsrc, nsrc)
        est = np.tensordot(mix, ref, axes=(1, 0)) + 0.2 * rs.randn(*shape)
    elif kind == "filter":
        h = rs.randn(8) * np.array([1, .5, .3, .2, .1, .05, .02, .01])
        est = np.apply_along_axis(lambda x: np.convolve(x, h)[:n], 1, ref) + 0.05 * rs.randn(*shape)
    elif kind == "perm":
        p = rs.permutation(nsrc)
        est = ref[p] + 0.3 * rs.randn(*shape)
    elif kind == "ambiguous":
        # two estimates dominated by the SAME reference: est0 = ref0 + 0.05*ref1 + noise, est1 = ref0 + 0.5*ref1 (clean).
        # Measured on this construction (10/10 seeds): mean SIR prefers the identity order, mean SDR the swapped one, so a
        # permutation search that maximises anything but mean SIR returns the wrong order.
        est = 0.2 * rs.randn(*shape) + ref
        if nsrc >= 2:
            c0, c1 = [(0.05, 0.5), (0.02, 0.45)][rs.randint(2)]
            est[0] = ref[0] + c0 * ref[1] + 1.0 * rs.randn(*shape[1:])
            est[1] = ref[0] + c1 * ref[1]
    else:
        est = rs.randn(*shape)
    return ref, est


def base_params(draw, max_nsrc=3, max_nchan=2, kinds=("mix", "mix", "filter", "perm", "perm", "noise", "copy", "ambiguous", "ambiguous")):
    return {"nsrc": draw(st.integers(1, max_nsrc)), "nchan": draw(st.integers(1, max_nchan)), "extra": draw(st.integers(0, 300)),
            "seed": draw(st.integers(0, 2 ** 31 - 1)), "kind": draw(st.sampled_from(list(kinds)))}


def _same_db(a, b):
    a, b = np.asarray(a, dtype=float), np.asarray(b, dtype=float)
    if a.shape != b.shape:
        return False
    for x, y in zip(a.ravel(), b.ravel()):
        if np.isnan(x) or np.isnan(y):
            if not (np.isnan(x) and np.isnan(y)):
                return False
        elif x == y:
            continue
        elif min(x, y) >= 150:
            continue
        elif not abs(x - y) <= DB_TOL:
            return False
    return True


# ------------------------------------------------------------------ (a) decomposition

@st.composite
def decomp_case(draw):
    c = base_params(draw)
    c["flen"] = draw(st.sampled_from([8, 32, 64, 512]))
    c["j"] = draw(st.integers(0, c["nsrc"] - 1))
    c["jest"] = draw(st.integers(0, c["nsrc"] - 1))
    if c["flen"] != 512:
        c["n"] = draw(st.integers(4 * c["flen"] * c["nsrc"], 4 * c["flen"] * c["nsrc"] + 200))
    return c


def pred_decomp(case, ctx):
    ref, est = make(case)
    flen, j = case["flen"], case["j"]
    e = est[case["jest"]]
    n = ref.shape[1]
    if case["nchan"] == 1:
        parts = ctx.call(S._bss_decomp_mtifilt, ref, e, j, flen)
        total = sum(parts)
        target = np.concatenate([e, np.zeros(flen - 1)])
    else:
        ref3 = ref
        e2 = np.reshape(e, (n, case["nchan"]), order="F")
        parts = ctx.call(S._bss_decomp_mtifilt_images, ref3, e2, j, flen)
        total = sum(parts)
        target = np.hstack([e2.T, np.zeros((case["nchan"], flen - 1))])
    if len(parts) != 4 or any(p.shape != target.shape for p in parts):
        raise Violation("decomposition returned shapes %r, expected 4 x %r" % ([p.shape for p in parts], target.shape))
    scale = max(1.0, float(np.max(np.abs(target))), *[float(np.max(np.abs(p))) for p in parts])
    resid = float(np.max(np.abs(total - target)))
    if not resid <= 1e-10 * scale:
        raise Violation("s_true + e_spat + e_interf + e_artif differs from the (zero-padded) estimate by %g (scale %g)" % (resid, scale))
    # s_true is the (padded) reference j itself
    want_true = np.concatenate([ref[j], np.zeros(flen - 1)]) if case["nchan"] == 1 else \
        np.hstack([np.reshape(ref[j], (n, case["nchan"]), order="F").T, np.zeros((case["nchan"], flen - 1))])
    if not np.array_equal(parts[0], want_true):
        raise Violation("s_true is not the zero-padded reference source %d" % j)
    return case["nsrc"] >= 2 or case["flen"] == 512


# ------------------------------------------------------------------ (b)-(d) sources / images

@st.composite
def crit_case(draw, images):
    c = base_params(draw, max_nchan=2 if images else 1)
    if images and c["nsrc"] == 3 and c["nchan"] == 2:
        c["nsrc"] = 2  # 3x2 costs ~4 s per permuted call; covered in the thorough tier through extra draws below
    c["images"] = images
    c["scale"] = draw(st.sampled_from([-0.5, 3.0, 1e-3, 1e-6, -1e-7, 1e5]))     # also a very quiet and a very loud copy
    c["scale_which"] = draw(st.sampled_from(["est", "ref"]))
    c["scale_idx"] = draw(st.integers(0, c["nsrc"] - 1))
    c["sigma"] = list(draw(st.permutations(list(range(c["nsrc"])))))
    c["pcm"] = draw(st.integers(0, 2)) == 0
    return c


def _run(images, ref, est, perm):
    if images:
        sdr, isr, sir, sar, p = S.bss_eval_images(ref, est, compute_permutation=perm)
        return {"sdr": sdr, "isr": isr, "sir": sir, "sar": sar, "perm": p}
    sdr, sir, sar, p = S.bss_eval_sources(ref, est, compute_permutation=perm)
    return {"sdr": sdr, "sir": sir, "sar": sar, "perm": p}


def pred_crit(case, ctx):
    images, nsrc = case["images"], case["nsrc"]
    name = "bss_eval_images" if images else "bss_eval_sources"
    ref, est = make(case)
    out = ctx.call(_run, images, ref, est, True)
    perm = np.asarray(out["perm"])
    if sorted(int(x) for x in perm) != list(range(nsrc)):
        raise Violation("%s returned perm %r, not a permutation of 0..%d" % (name, perm.tolist(), nsrc - 1))
    for k, v in out.items():
        if np.asarray(v).shape != (nsrc,):
            raise Violation("%s: %s has shape %r for %d sources" % (name, k, np.asarray(v).shape, nsrc))
    # (c) optimality: brute force over all orders with compute_permutation=False
    best = None
    means = {}
    for q in itertools.permutations(range(nsrc)):
        o = ctx.call(_run, images, ref, est[list(q)], False)
        if not np.array_equal(np.asarray(o["perm"]), np.arange(nsrc)):
            raise Violation("%s(compute_permutation=False) returned perm %r" % (name, np.asarray(o["perm"]).tolist()))
        means[q] = (float(np.mean(o["sir"])), o)
        if best is None or means[q][0] > best:
            best = means[q][0]
    got_mean = float(np.mean(out["sir"]))
    if not (got_mean >= best - 1e-9 or (np.isinf(best) and np.isinf(got_mean))):
        raise Violation("%s: returned permutation %r has mean SIR %r, order with mean SIR %r exists" % (name, perm.tolist(), got_mean, best))
    ofix = means[tuple(int(x) for x in perm)][1]
    for k in out:
        if k != "perm" and not _same_db(out[k], ofix[k]):
            raise Violation("%s: %s %r differs from the value for the returned order computed without permutation search %r" % (name, k, out[k], ofix[k]))
    # reordering the estimates by sigma
    sigma = case["sigma"]
    o2 = ctx.call(_run, images, ref, est[sigma], True)
    p2 = np.asarray(o2["perm"]).astype(int)
    unique_opt = sum(1 for q in means if means[q][0] >= best - 1e-9) == 1
    if unique_opt and [sigma[i] for i in p2] != [int(x) for x in perm]:
        raise Violation("%s: estimates reordered by %r give perm %r, expected sigma[perm'] == %r" % (name, sigma, p2.tolist(), perm.tolist()))
    if unique_opt:
        for k in out:
            if k != "perm" and not _same_db(out[k], o2[k]):
                raise Violation("%s: %s changes from %r to %r when the estimates are reordered" % (name, k, out[k], o2[k]))
    # (b) scaling one source
    c, i = case["scale"], case["scale_idx"]
    r2, e2 = ref.copy(), est.copy()
    (e2 if case["scale_which"] == "est" else r2)[i] *= c
    o3 = ctx.call(_run, images, r2, e2, False)
    o0 = means[tuple(range(nsrc))][1]
    keys = ("sir", "sar") if images else ("sdr", "sir", "sar")
    for k in keys:
        if not _same_db(o0[k], o3[k]):
            raise Violation("%s: %s changes from %r to %r when %s source %d is multiplied by %r" % (name, k, o0[k], o3[k], case["scale_which"], i, c))
    # (b') integer PCM: the same sample values as int16 (what scipy.io.wavfile.read returns) and as float64 (= multiplied by 1.0)
    if case.get("pcm"):
        top = max(float(np.abs(ref).max()), float(np.abs(est).max()))
        ri = np.round(ref / top * 30000.0).astype(np.int16)
        ei = np.round(est / top * 30000.0).astype(np.int16)
        if all(np.any(x) for x in ri.reshape(nsrc, -1)) and all(np.any(x) for x in ei.reshape(nsrc, -1)):
            oi = ctx.call(_run, images, ri, ei, False)
            of = ctx.call(_run, images, ri.astype(np.float64), ei.astype(np.float64), False)
            for k in oi:
                if k != "perm" and not _same_db(oi[k], of[k]):
                    raise Violation("%s: %s is %r for int16 sources but %r for the same samples as float64" % (name, k, oi[k], of[k]))
            ctx.event("int16_sources")
    # (d) perfect estimate
    if case["kind"] == "copy":
        if [int(x) for x in perm] != list(range(nsrc)):
            raise Violation("%s: perfect estimate mapped to perm %r" % (name, perm.tolist()))
        if not np.all(np.asarray(out["sdr"]) > 200):
            raise Violation("%s: perfect estimate has SDR %r" % (name, out["sdr"]))
        ctx.event("perfect_estimate")
    nonid = [int(x) for x in perm] != list(range(nsrc))
    if nonid:
        ctx.event("non_identity_optimal_permutation")
    ctx.event("nsrc=%d,nchan=%d" % (nsrc, case["nchan"]))
    return True


# ------------------------------------------------------------------ (e) framewise

@st.composite
def frame_case(draw):
    c = base_params(draw, max_nsrc=2, kinds=("mix", "filter", "perm", "noise"))
    c["images"] = draw(st.booleans())
    if not c["images"]:
        c["nchan"] = 1
    w = 2 * c["nsrc"] * 512
    c["window"], c["hop"] = w, w // 2
    shape = draw(st.sampled_from(["windows", "windows", "windows", "single", "empty"]))
    c["shape"] = shape
    if shape == "windows":
        nwin = draw(st.integers(2, 4))
        c["n"] = w + (nwin - 1) * (w // 2) + draw(st.integers(0, w // 2 - 1))
        c["silent"] = draw(st.sampled_from([None, None, "ref", "est"]))
        c["silent_win"] = draw(st.integers(0, nwin - 1))
        c["silent_src"] = draw(st.integers(0, c["nsrc"] - 1))
        # a gated stem: the whole window is zero, or everything but its very first / very last sample (then the window is NOT silent)
        c["silent_how"] = draw(st.sampled_from(["all", "all", "all_but_first", "all_but_last"]))
    elif shape == "single":
        c["n"] = w + draw(st.integers(0, w // 2 - 1))
    c["compute_permutation"] = draw(st.booleans())
    return c


def pred_framewise(case, ctx):
    images = case["images"]
    fw = S.bss_eval_images_framewise if images else S.bss_eval_sources_framewise
    glob = S.bss_eval_images if images else S.bss_eval_sources
    name = fw.__name__
    arity = 5 if images else 4
    names = ["sdr", "isr", "sir", "sar", "perm"] if images else ["sdr", "sir", "sar", "perm"]
    cp = case["compute_permutation"]
    if case["shape"] == "empty":
        for shp in ([(0,), (0, 0)] if not images else [(0,), (0, 0), (0, 0, 0)]):
            z = np.zeros(shp)
            out = ctx.call(fw, z, z, window=case["window"], hop=case["hop"])
            if len(out) != arity:
                raise Violation("%s on empty input returns %d arrays, documented arity is %d" % (name, len(out), arity))
            g = ctx.call(glob, z, z)
            if len(g) != arity:
                raise Violation("%s on empty input returns %d arrays, documented arity is %d" % (glob.__name__, len(g), arity))
        ev = ctx.call(S.evaluate, np.zeros((0, 0)), np.zeros((0, 0)))
        if not isinstance(ev, dict) or not ev:
            raise Violation("separation.evaluate on empty input returned %r" % (ev,))
        ctx.event("empty_input")
        return True
    ref, est = make(case)
    w, h = case["window"], case["hop"]
    n = ref.shape[1]
    if case.get("silent"):
        k = case["silent_win"]
        tgt = ref if case["silent"] == "ref" else est
        how = case.get("silent_how", "all")
        lo_, hi_ = k * h + (1 if how == "all_but_first" else 0), k * h + w - (1 if how == "all_but_last" else 0)
        tgt[case["silent_src"], lo_:hi_] = 0.0
        if how != "all":
            ctx.event("window_silent_except_one_edge_sample")
    out = ctx.call(fw, ref, est, window=w, hop=h, compute_permutation=cp)
    if len(out) != arity:
        raise Violation("%s returns %d arrays, documented arity is %d" % (name, len(out), arity))
    nwin = int(np.floor((n - w + h) / h))
    nsrc = case["nsrc"]
    if nwin < 2:
        g = ctx.call(glob, ref, est, cp)
        for nm, a, b in zip(names, out, g):
            a = np.asarray(a)
            if a.shape != (nsrc, 1) or not np.array_equal(a[:, 0], np.asarray(b), equal_nan=True):
                raise Violation("%s with fewer than 2 windows: %s is %r, expected the global result %r with a trailing axis" % (name, nm, a.tolist(), np.asarray(b).tolist()))
        ctx.event("fewer_than_2_windows")
        return True
    nt = False
    for nm, a in zip(names, out):
        if np.asarray(a).shape != (nsrc, nwin):
            raise Violation("%s: %s has shape %r, expected (%d, %d)" % (name, nm, np.asarray(a).shape, nsrc, nwin))
    for k in range(nwin):
        sl = slice(k * h, k * h + w)
        rsl, esl = ref[:, sl], est[:, sl]
        silent = bool(S._any_source_silent(np.atleast_3d(rsl)) if images else S._any_source_silent(rsl)) or \
            bool(S._any_source_silent(np.atleast_3d(esl)) if images else S._any_source_silent(esl))
        def _zero(x):
            return np.all(x.reshape(x.shape[0], -1) == 0, axis=1).any()
        silent = bool(_zero(rsl) or _zero(esl))
        if silent:
            for nm, a in zip(names, out):
                if not np.all(np.isnan(np.asarray(a)[:, k])):
                    raise Violation("%s: window %d has a silent source but %s[:, %d] = %r (every metric must be NaN)" % (name, k, nm, k, np.asarray(a)[:, k].tolist()))
            nt = True
            ctx.event("silent_window")
        else:
            g = ctx.call(glob, rsl, esl, cp)
            for nm, a, b in zip(names, out, g):
                if not np.array_equal(np.asarray(a)[:, k], np.asarray(b, dtype=float)):
                    raise Violation("%s: %s[:, %d] = %r differs from the non-framewise result on that window %r" % (name, nm, k, np.asarray(a)[:, k].tolist(), np.asarray(b).tolist()))
    # evaluate() accepts the same input and reports the same framewise numbers
    if case["nsrc"] == 1 and not case.get("silent"):
        ev = ctx.call(S.evaluate, ref, est, window=w, hop=h)
        key = "Images Frames - Source to Interference"
        if key not in ev:
            raise Violation("separation.evaluate lacks %r" % key)
    ctx.event("nwin=%d" % nwin)
    return nt or nwin >= 3


SUBPROPS = [
    SubProp("decomposition_sum", pred_decomp, strategy=decomp_case, n=(240, 4000), shards=(4, 16), floor=0.3,
            rule="_bss_decomp_mtifilt(_images) with filter length 8..512; NT = nsrc >= 2 or the production filter length 512"),
    SubProp("sources_perm_scale", pred_crit, strategy=lambda: crit_case(False), n=(64, 800), shards=(16, 16), floor=0.3, weight=30,
            rule="bss_eval_sources: permutation validity/optimality/equivariance, scale invariance, perfect estimate; every case scales one source"),
    SubProp("images_perm_scale", pred_crit, strategy=lambda: crit_case(True), n=(48, 600), shards=(16, 16), floor=0.3, weight=60,
            rule="bss_eval_images: same, SIR/SAR only under scaling"),
    SubProp("framewise", pred_framewise, strategy=frame_case, n=(96, 1000), shards=(16, 16), floor=0.3, weight=20,
            rule="framewise == per-window call; NT = silent window, >= 3 windows, < 2 windows or empty input"),
]
