"""C03 -- evaluate() is exactly the documented bundle of the individual metrics."""
import inspect
import math
import numbers

import numpy as np
from hypothesis import strategies as st

from gens import registry as R
from vlib.runner import SubProp, Violation

import mir_eval
from mir_eval import (alignment, beat, chord, hierarchy, key, melody, multipitch, onset, pattern, segment, tempo, transcription,
                      transcription_velocity, util)
from checks.c01 import KINDS

PROPERTY_ID = "C03"
SCALE = (2, 2)   # budget multiplier (quick, thorough) applied to the n=(...) of every generated sub-property
LEVEL = "exploration"
RULE = ("for each of the 13 tasks: valid inputs incl. empty sides, a random subset of the keyword parameters of the underlying metric functions "
        "(in-range values) and optionally one unrelated keyword; evaluate() is compared entry by entry with direct calls of the public metric "
        "functions on input pre-processed as documented, with the documented forced parameter of each entry; non-trivial = at least one keyword "
        "passed and both sides non-empty, or an empty-side case; distinct by SHA-1")
ASSUMPTIONS = [
    "the documented key set per task is the one transcribed in checks/c01.KINDS (order as in the docstrings/implementation); for transcription the "
    "offset-based entries are absent when offset_ratio=None is passed (explicit, tested code path)",
    "recipes use only public helpers (trim_beats, adjust_intervals, merge_labeled_intervals, merge_chord_intervals, to_cent_voicing ...) and inspect.signature "
    "to route keywords, i.e. they share no code path with util.filter_kwargs beyond the metric functions themselves",
    "values must be identical (== or both NaN): both routes execute the same floating-point operations",
]


def pick(fn, kw):
    names = inspect.signature(fn).parameters
    return {k: v for k, v in kw.items() if k in names}


def _same(a, b):
    try:
        fa, fb = float(a), float(b)
    except (TypeError, ValueError):
        return False
    return fa == fb or (math.isnan(fa) and math.isnan(fb))


def _scalar(name, v):
    if isinstance(v, (tuple, list, dict)) or np.ndim(v) != 0:
        raise Violation("evaluate()[%r] = %r is not a real scalar" % (name, v))
    if not isinstance(v, (numbers.Real, np.floating, np.integer, np.bool_)):
        raise Violation("evaluate()[%r] = %r (%s) is not a real scalar" % (name, v, type(v).__name__))


# ------------------------------------------------------------------ recipes: expected dict from direct calls

def recipe_beat(a, kw):
    r = beat.trim_beats(a[0], **pick(beat.trim_beats, kw))
    e = beat.trim_beats(a[1], **pick(beat.trim_beats, kw))
    out = {"F-measure": beat.f_measure(r, e, **pick(beat.f_measure, kw))}
    out["Cemgil"], out["Cemgil Best Metric Level"] = beat.cemgil(r, e, **pick(beat.cemgil, kw))
    out["Goto"] = beat.goto(r, e, **pick(beat.goto, kw))
    out["P-score"] = beat.p_score(r, e, **pick(beat.p_score, kw))
    (out["Correct Metric Level Continuous"], out["Correct Metric Level Total"], out["Any Metric Level Continuous"],
     out["Any Metric Level Total"]) = beat.continuity(r, e, **pick(beat.continuity, kw))
    out["Information gain"] = beat.information_gain(r, e, **pick(beat.information_gain, kw))
    return out


def recipe_onset(a, kw):
    f, p, r = onset.f_measure(a[0], a[1], **pick(onset.f_measure, kw))
    return {"F-measure": f, "Precision": p, "Recall": r}


def recipe_segment(a, kw):
    ri, rl = util.adjust_intervals(a[0], labels=list(a[1]), t_min=0.0)
    ei, el = util.adjust_intervals(a[2], labels=list(a[3]), t_min=0.0, t_max=ri.max())
    out = {}
    for w, tag in ((0.5, "0.5"), (3.0, "3.0")):
        k = dict(pick(segment.detection, kw), window=w)
        out["Precision@" + tag], out["Recall@" + tag], out["F-measure@" + tag] = segment.detection(ri, ei, **k)
    out["Ref-to-est deviation"], out["Est-to-ref deviation"] = segment.deviation(ri, ei, **pick(segment.deviation, kw))
    out["Pairwise Precision"], out["Pairwise Recall"], out["Pairwise F-measure"] = segment.pairwise(ri, rl, ei, el, **pick(segment.pairwise, kw))
    out["Rand Index"] = segment.rand_index(ri, rl, ei, el, **pick(segment.rand_index, kw))
    out["Adjusted Rand Index"] = segment.ari(ri, rl, ei, el, **pick(segment.ari, kw))
    (out["Mutual Information"], out["Adjusted Mutual Information"],
     out["Normalized Mutual Information"]) = segment.mutual_information(ri, rl, ei, el, **pick(segment.mutual_information, kw))
    out["NCE Over"], out["NCE Under"], out["NCE F-measure"] = segment.nce(ri, rl, ei, el, **pick(segment.nce, kw))
    out["V Precision"], out["V Recall"], out["V-measure"] = segment.vmeasure(ri, rl, ei, el, **pick(segment.vmeasure, kw))
    return out


def recipe_chord(a, kw):
    ri, rl = a[0], list(a[1])
    ei, el = util.adjust_intervals(a[2], list(a[3]), ri.min(), ri.max(), chord.NO_CHORD, chord.NO_CHORD)
    mr = chord.merge_chord_intervals(ri, rl)
    me = chord.merge_chord_intervals(ei, el)
    iv, r2, e2 = util.merge_labeled_intervals(ri, rl, ei, el)
    dur = util.intervals_to_durations(iv)
    out = {}
    for name in ["thirds", "thirds_inv", "triads", "triads_inv", "tetrads", "tetrads_inv", "root", "mirex", "majmin", "majmin_inv", "sevenths", "sevenths_inv"]:
        out[name] = chord.weighted_accuracy(getattr(chord, name)(r2, e2), dur)
    out["underseg"] = chord.underseg(mr, me)
    out["overseg"] = chord.overseg(mr, me)
    out["seg"] = chord.seg(mr, me)
    return out


def recipe_melody(a, kw):
    k = dict(kw)
    ev, rr = k.pop("est_voicing", None), k.pop("ref_reward", None)
    rv, rc, evv, ec = melody.to_cent_voicing(a[0], a[1], a[2], a[3], ev, rr, **pick(melody.to_cent_voicing, k))
    return {"Voicing Recall": melody.voicing_recall(rv, evv), "Voicing False Alarm": melody.voicing_false_alarm(rv, evv),
            "Raw Pitch Accuracy": melody.raw_pitch_accuracy(rv, rc, evv, ec, **pick(melody.raw_pitch_accuracy, k)),
            "Raw Chroma Accuracy": melody.raw_chroma_accuracy(rv, rc, evv, ec, **pick(melody.raw_chroma_accuracy, k)),
            "Overall Accuracy": melody.overall_accuracy(rv, rc, evv, ec, **pick(melody.overall_accuracy, k))}


def recipe_multipitch(a, kw):
    names = list(KINDS["multipitch"])
    vals = multipitch.metrics(a[0], a[1], a[2], a[3], **pick(multipitch.compute_num_true_positives, {k: v for k, v in kw.items() if k != "chroma"}))
    return dict(zip(names, vals))


def recipe_transcription(a, kw):
    k = dict(kw)
    k.setdefault("offset_ratio", 0.2)
    orig = k["offset_ratio"]
    out = {}
    f = transcription.precision_recall_f1_overlap
    if orig is not None:
        out["Precision"], out["Recall"], out["F-measure"], out["Average_Overlap_Ratio"] = f(*a, **pick(f, k))
    k2 = dict(k, offset_ratio=None)
    (out["Precision_no_offset"], out["Recall_no_offset"], out["F-measure_no_offset"], out["Average_Overlap_Ratio_no_offset"]) = f(*a, **pick(f, k2))
    g = transcription.onset_precision_recall_f1
    out["Onset_Precision"], out["Onset_Recall"], out["Onset_F-measure"] = g(a[0], a[2], **pick(g, k2))
    if orig is not None:
        h = transcription.offset_precision_recall_f1
        out["Offset_Precision"], out["Offset_Recall"], out["Offset_F-measure"] = h(a[0], a[2], **pick(h, k))
    return out


def recipe_velocity(a, kw):
    k = dict(kw)
    k.setdefault("offset_ratio", 0.2)
    f = transcription_velocity.precision_recall_f1_overlap
    out = {}
    if k["offset_ratio"] is not None:
        out["Precision"], out["Recall"], out["F-measure"], out["Average_Overlap_Ratio"] = f(*a, **pick(f, k))
    k2 = dict(k, offset_ratio=None)
    (out["Precision_no_offset"], out["Recall_no_offset"], out["F-measure_no_offset"], out["Average_Overlap_Ratio_no_offset"]) = f(*a, **pick(f, k2))
    return out


def recipe_tempo(a, kw):
    p, o, b = tempo.detection(a[0], a[1], a[2], **pick(tempo.detection, kw))
    return {"P-score": p, "One-correct": o, "Both-correct": b}


def recipe_key(a, kw):
    return {"Weighted Score": key.weighted_score(a[0], a[1])}


def recipe_pattern(a, kw, occ_thres=(0.5, 0.75)):
    out = {}
    out["F"], out["P"], out["R"] = pattern.standard_FPR(a[0], a[1], **pick(pattern.standard_FPR, kw))
    out["F_est"], out["P_est"], out["R_est"] = pattern.establishment_FPR(a[0], a[1], **pick(pattern.establishment_FPR, kw))
    k = {x: y for x, y in pick(pattern.occurrence_FPR, kw).items() if x != "thres"}
    out["F_occ.5"], out["P_occ.5"], out["R_occ.5"] = pattern.occurrence_FPR(a[0], a[1], thres=occ_thres[0], **k)
    out["F_occ.75"], out["P_occ.75"], out["R_occ.75"] = pattern.occurrence_FPR(a[0], a[1], thres=occ_thres[1], **k)
    out["F_3"], out["P_3"], out["R_3"] = pattern.three_layer_FPR(a[0], a[1])
    n = kw.get("n", 5)
    out["FFP"] = pattern.first_n_three_layer_P(a[0], a[1], n=n)
    out["FFTP_est"] = pattern.first_n_target_proportion_R(a[0], a[1], n=n)
    return out


def recipe_hierarchy(a, kw):
    ends = [iv.max() for iv in a[0]]
    t_end = max(ends)
    ri, rl, ei, el = [], [], [], []
    for iv, lab in zip(a[0], a[1]):
        x, y = util.adjust_intervals(np.asarray(iv), labels=list(lab), t_min=0.0, t_max=None)
        ri.append(x)
        rl.append(y)
    for iv, lab in zip(a[2], a[3]):
        x, y = util.adjust_intervals(np.asarray(iv), labels=list(lab), t_min=0.0, t_max=t_end)
        ei.append(x)
        el.append(y)
    out = {}
    kt = {k: v for k, v in pick(hierarchy.tmeasure, kw).items() if k != "transitive"}
    out["T-Precision reduced"], out["T-Recall reduced"], out["T-Measure reduced"] = hierarchy.tmeasure(ri, ei, transitive=False, **kt)
    out["T-Precision full"], out["T-Recall full"], out["T-Measure full"] = hierarchy.tmeasure(ri, ei, transitive=True, **kt)
    out["L-Precision"], out["L-Recall"], out["L-Measure"] = hierarchy.lmeasure(ri, rl, ei, el, **pick(hierarchy.lmeasure, kw))
    return out


def recipe_alignment(a, kw):
    out = {"pc": alignment.percentage_correct(a[0], a[1], **pick(alignment.percentage_correct, kw))}
    out["mae"], out["aae"] = alignment.absolute_error(a[0], a[1])
    out["pcs"] = alignment.percentage_correct_segments(a[0], a[1], **pick(alignment.percentage_correct_segments, kw))
    out["perceptual"] = alignment.karaoke_perceptual_metric(a[0], a[1])
    return out


RECIPES = {"beat": recipe_beat, "onset": recipe_onset, "segment": recipe_segment, "chord": recipe_chord, "melody": recipe_melody,
           "multipitch": recipe_multipitch, "transcription": recipe_transcription, "transcription_velocity": recipe_velocity, "tempo": recipe_tempo,
           "key": recipe_key, "pattern": recipe_pattern, "hierarchy": recipe_hierarchy, "alignment": recipe_alignment}


def expected_keys(task, kw):
    keys = list(KINDS[task])
    if task in ("transcription", "transcription_velocity") and "offset_ratio" in kw and kw["offset_ratio"] is None:
        keys = [k for k in keys if "no_offset" in k or k.startswith("Onset")]
    return keys


def make_strategy(task):
    base = R.STRATEGIES[task]

    @st.composite
    def s(draw):
        c = draw(base())
        c["junk"] = draw(st.booleans())
        if task == "pattern" and draw(st.integers(0, 3)) == 0:
            c["kw"]["thres"] = draw(st.sampled_from([0.5, 0.6, 0.9]))
        return c
    return s


def make_pred(task):
    mod = R.module(task)
    recipe = RECIPES[task]

    def pred(case, ctx):
        args, kw = R.build(task, case)
        ekw = dict(kw)
        if case["junk"]:
            ekw["an_unrelated_keyword"] = 12345
        args2, _ = R.build(task, case)           # fresh copies for the direct route
        got = ctx.call(mod.evaluate, *args, **ekw)
        if not isinstance(got, dict):
            raise Violation("%s.evaluate returned %s, not a mapping" % (task, type(got).__name__))
        want_keys = expected_keys(task, kw)
        if list(got.keys()) != want_keys:
            raise Violation("%s.evaluate keys %r differ from the documented set %r" % (task, list(got.keys()), want_keys))
        for k, v in got.items():
            _scalar(k, v)
        exp = ctx.call(recipe, args2, kw)
        bad = [(k, got[k], exp[k]) for k in want_keys if not _same(got[k], exp[k])]
        if bad and task == "pattern":
            # known finding KF-05: evaluate() writes kwargs['thresh'], occurrence_FPR reads 'thres' -> both entries use thres (default 0.75)
            t = kw.get("thres", 0.75)
            dev = recipe_pattern(args2, kw, occ_thres=(t, t))
            if all(_same(got[k], dev[k]) for k in want_keys):
                ctx.known("c03.pattern.evaluate:thresh_typo", "entries %r" % [b[0] for b in bad])
                bad = []
        if bad:
            raise Violation("%s.evaluate differs from direct calls of the metric functions on identically pre-processed input: %r; kwargs %r"
                            % (task, [(k, repr(a), repr(b)) for k, a, b in bad[:4]], case["kw"]))
        if case["junk"]:
            plain = ctx.call(mod.evaluate, *R.build(task, case)[0], **kw)
            if list(plain.keys()) != list(got.keys()) or any(not _same(plain[k], got[k]) for k in plain):
                raise Violation("%s.evaluate changes when an unrelated keyword is added" % task)
        # the returned mapping belongs to the caller: a reporting loop that edits it in place (scales a value, adds a column) must not
        # change what the next evaluate() of the same annotation returns
        for k in list(got.keys()):
            got[k] = -12345.0
        got["track"] = "edited by the caller"
        again = ctx.call(mod.evaluate, *R.build(task, case)[0], **kw)
        if list(again.keys()) != want_keys or any(not _same(again[k], exp[k]) for k in want_keys if (k, got.get(k), exp[k]) not in bad):
            if not (task == "pattern" and any(x in ctx.known_hits for x in ("c03.pattern.evaluate:thresh_typo",))):
                raise Violation("%s.evaluate: after the caller edited the mapping returned by the previous call, the next call returns keys %r / values that differ "
                                "from the metric functions" % (task, list(again.keys())[:6]))
        rn, en = R.sides(case)
        empty = not (rn and en)
        if empty:
            ctx.event("empty_side")
        if case["kw"]:
            ctx.event("with_keywords")
        return empty or bool(case["kw"]) or case["junk"]
    return pred


# ------------------------------------------------------------------ several tasks in one interpreter
# Every per-task sub-property runs in its own worker process.  Shared helpers (util.filter_kwargs ...) are used by all tasks, so state
# they might keep between calls can only show when different tasks are evaluated one after the other in the same process.

@st.composite
def sequence_case(draw):
    k = draw(st.integers(2, 4))
    steps = []
    for _ in range(k):
        t = draw(st.sampled_from(R.TASKS))
        c = draw(R.STRATEGIES[t]())
        c["junk"] = False
        # make keyword routing matter: each task gets at least one of its own keywords where it has any
        if not c["kw"] and t in FORCE_KW:
            c["kw"] = dict(FORCE_KW[t])
        steps.append({"task": t, "case": c})
    return {"steps": steps}


FORCE_KW = {"beat": {"f_measure_threshold": 0.0625}, "onset": {"window": 0.125}, "segment": {"beta": 2.0}, "tempo": {"tol": 0.25},
            "transcription": {"onset_tolerance": 0.125}, "transcription_velocity": {"velocity_tolerance": 0.3}, "alignment": {"window": 0.5},
            "hierarchy": {"beta": 2.0}, "melody": {"cent_tolerance": 25}, "multipitch": {"window": 0.25}, "pattern": {"n": 2}}
_PREDS = {}


def pred_sequence(case, ctx):
    nt = False
    for stp in case["steps"]:
        t = stp["task"]
        if t not in _PREDS:
            _PREDS[t] = make_pred(t)
        _PREDS[t](stp["case"], ctx)
        ctx.event("step:" + t)
    tasks = [s_["task"] for s_ in case["steps"]]
    return len(set(tasks)) >= 2


N = {"beat": (500, 12000), "onset": (400, 8000), "segment": (350, 8000), "chord": (300, 6000), "hierarchy": (150, 3000), "melody": (400, 8000),
     "multipitch": (300, 6000), "transcription": (400, 8000), "transcription_velocity": (300, 6000), "tempo": (300, 6000), "key": (200, 3000),
     "pattern": (400, 8000), "alignment": (300, 6000)}
SUBPROPS = [SubProp("task_sequences_in_one_process", pred_sequence, strategy=sequence_case, n=(600, 12000), shards=(8, 16), floor=0.3,
                    rule="2-4 evaluate() calls of (mostly different) tasks in one interpreter, each compared with direct calls; NT = at least two different tasks")]
SUBPROPS += [SubProp(t, make_pred(t), strategy=make_strategy(t), n=N[t], shards=(2 if t in ("segment", "hierarchy", "beat") else 1, 8), floor=0.2,
                    rule="evaluate() of mir_eval.%s vs direct calls; NT = keyword(s) passed or an empty side" % t) for t in R.TASKS]


@st.composite
def biased_tracker_case(draw):
    """a steady pulse tracked with a constant bias (late or early by k/64 s) and ALL of Goto's / continuity's keywords set, pairwise
    different: the mean of the beat error is then large and its spread small, which tells the keywords apart"""
    period = draw(st.sampled_from([0.5, 0.75, 1.0]))
    n = draw(st.integers(8, 14))
    t0 = 5.0 + draw(st.integers(0, 64)) / 64
    ref = [t0 + i * period for i in range(n)]
    s = draw(st.integers(-14, 14)) / 64
    est = [x + s for x in ref]
    kw = {"goto_threshold": draw(st.sampled_from([0.35, 0.25, 0.45])), "goto_mu": draw(st.sampled_from([0.05, 0.1, 0.2, 0.3])),
          "goto_sigma": draw(st.sampled_from([0.02, 0.15, 0.25, 0.4])),
          "continuity_phase_threshold": draw(st.sampled_from([0.05, 0.175, 0.3])), "continuity_period_threshold": draw(st.sampled_from([0.1, 0.2, 0.02]))}
    return {"shape": "regular", "ref": ref, "est": est, "kw": kw, "junk": draw(st.booleans())}


SUBPROPS.append(SubProp("beat_biased_tracker_keywords", make_pred("beat"), strategy=biased_tracker_case, n=(300, 6000), shards=(2, 8), floor=0.2,
                        rule="steady pulse with a constant tracking bias, all Goto and continuity keywords set to pairwise different values; evaluate() vs direct calls"))

