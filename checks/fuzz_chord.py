#!/venv/bin/python
"""Coverage-guided byte-level campaign for C10 (atheris / libFuzzer).  The semantic oracle (differential against the independent
Harte parser/encoder, totality, structure, split/join round trip) lives inside the target: checks.c10.check_label.
Usage: fuzz_chord.py <out_json> [libFuzzer args ...] <corpus_dir>"""
import json
import os
import sys
import warnings

ROOT = os.path.dirname(os.path.dirname(os.path.abspath(__file__)))
sys.path.insert(0, ROOT)
sys.path.insert(0, os.path.join(ROOT, ".deps"))
warnings.simplefilter("ignore")
import atheris  # noqa: E402

OUT = sys.argv.pop(1)
from vlib.runner import REPO, Ctx, Violation  # noqa: E402

sys.path.insert(0, REPO)
with atheris.instrument_imports(include=["mir_eval.chord"]):
    import mir_eval.chord  # noqa: F401
from vlib.runner import import_mir_eval  # noqa: E402

import_mir_eval()
from checks import c10  # noqa: E402

CTX = Ctx("C10", "atheris_campaign")
STATE = {"n": 0, "accepted": 0}


def TestOneInput(data):
    STATE["n"] += 1
    try:
        s = data.decode("utf-8")
    except UnicodeDecodeError:
        s = data.decode("latin-1")
    try:
        f = c10.check_label(s, CTX)
        STATE["accepted"] += bool(f["accepted"])
    except Violation as v:
        with open(OUT, "w") as fh:
            json.dump({"label": s, "message": str(v), "executions": STATE["n"]}, fh)
        raise


# (libFuzzer exits the process itself: atexit handlers do not run; the driver parses 'Done N runs' from stderr)
atheris.Setup(sys.argv, TestOneInput)
atheris.Fuzz()
