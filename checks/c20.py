"""C20 -- annotation files load back to exactly what they encode."""
import io as _io
import locale
import os
import tempfile
import codecs
import math
import warnings

import numpy as np
from hypothesis import strategies as st

from vlib.runner import SubProp, Violation, VERIF_ROOT

from mir_eval import io as mio

PROPERTY_ID = "C20"
SCALE = (3, 4)   # budget multiplier (quick, thorough) applied to the n=(...) of every generated sub-property
LEVEL = "exploration"
RULE = ("files for each of the 10 loaders: rows of finite floats written with repr (exponents, negatives, subnormals, -0.0), labels = "
        "unicode text without newline characters and without leading/trailing whitespace (internal whitespace and delimiter characters "
        "allowed in the last column), delimiter in {space, tab, mixed whitespace, ',', ';', tab-only, ' | '}, comment lines interleaved, "
        "final newline present or not, delivered as StringIO or as a temp file; single-fault corruptions (missing/extra column, unparsable "
        "number, second row or empty key/tempo file, tempo weight outside [0,1], convention violations that still parse); non-trivial = >= 2 "
        "rows and (label with internal whitespace/delimiter, exponent-form float, or comment line), or any fault case; distinct by SHA-1")
ASSUMPTIONS = [
    "repr(float) -> float() is the identity on finite doubles (CPython); numbers are written with repr",
    "labels exclude newline characters and leading/trailing whitespace because the documented format strips lines; for whitespace delimiters "
    "the first character after the numeric columns is non-space by construction",
    "temp files live under /verif/.work and are removed after each case",
]
WORK = os.path.join(VERIF_ROOT, ".work")
ENC = locale.getpreferredencoding(False)

fl = st.one_of(
    st.floats(allow_nan=False, allow_infinity=False, width=64),
    st.floats(min_value=0, max_value=30000, allow_nan=False).map(lambda x: round(x, 3)),
    st.sampled_from([0.0, -0.0, 1e-320, 5e-324, 1.7976931348623157e308, 1e22, 1e-7, 123456789.125, -2.5e-5]),
)
_WS = set(" \t\n\r\x0b\x0c\x1c\x1d\x1e\x1f\x85\xa0")
label = st.one_of(
    st.text(alphabet=st.characters(blacklist_categories=("Cs",), blacklist_characters="\n\r"), min_size=1, max_size=12),
    st.text(alphabet=list("abcXYZ #,;|:\t-_/()éß日本"), min_size=1, max_size=10),
    st.sampled_from(["C:maj", "verse 1", "a, b", "x;y", "N", "# not a comment", "a | b", "multi  space", "tab\there"]),
    # strings that are not in a Unicode normal form (decomposed accents as macOS writes them, compatibility characters): "exactly the
    # written strings" includes their code points
    st.sampled_from(["Cafe\u0301", "e\u0301tude no\u0308el", "\u2126", "\u212b", "\ufb01n", "\u1e9b\u0323", "\u00c5ngstro\u0308m", "q\u0323\u0307", "\uac00\u1100\u1161"]),
).filter(lambda s: s == s.strip() and len(s) > 0 and not any(c in "\n\r\x0b\x0c\x1c\x1d\x1e\x85  " for c in s))
DELIMS = [[" ", r"\s+"], ["\t", r"\s+"], ["  \t ", r"\s+"], [",", ","], [";", ";"], ["\t", "\t"], [" | ", r" \| "]]

# loader -> column kinds
FORMATS = {
    "load_events": ["f"],
    "load_labeled_events": ["f", "s"],
    "load_intervals": ["f", "f"],
    "load_labeled_intervals": ["f", "f", "s"],
    "load_valued_intervals": ["f", "f", "f"],
    "load_time_series": ["f", "f"],
}


def _label_ok(lab, sep, rx):
    """Can the label sit in the last column with this delimiter and come back unchanged?"""
    if rx == r"\s+":
        return True          # maxsplit keeps internal whitespace
    return True              # any delimiter: maxsplit = n_columns - 1 keeps the rest of the line


@st.composite
def delimited_case(draw, loaders=None):
    loader = draw(st.sampled_from(loaders or sorted(FORMATS)))
    kinds = FORMATS[loader]
    n = draw(st.integers(0, 6))
    rows = []
    for _ in range(n):
        rows.append([draw(fl) if k == "f" else draw(label) for k in kinds])
    fault = draw(st.sampled_from([None, None, None, "missing_col", "extra_col", "bad_number", "convention"]))
    if fault in ("missing_col", "extra_col", "bad_number") and not rows:
        rows.append([draw(fl) if k == "f" else draw(label) for k in kinds])
    if fault == "extra_col" and kinds[-1] == "s":
        fault = "bad_number"
    if fault == "missing_col" and len(kinds) == 1:
        fault = "bad_number"      # removing the only column leaves an empty line, i.e. possibly an empty file
    if fault == "convention" and not rows:
        fault = None
    return {"loader": loader, "rows": rows, "delim": draw(st.sampled_from(DELIMS)), "comments": draw(st.sampled_from(["none", "none", "even", "first", "last"])),
            "final_newline": draw(st.booleans()), "route": draw(st.sampled_from(["stringio", "path", "stringio", "path", "open", "namedtemp", "codecs", "duck"])),
            "fault": fault, "fault_row": draw(st.integers(0, 5)), "fault_col": draw(st.integers(0, 2)), "crlf": draw(st.integers(0, 5)) == 0,
            # the comment= keyword: default '#', another marker, or None (comments disabled -> the file has no comment lines)
            "comment_marker": draw(st.sampled_from(["#", "#", "#", "%", "//", None]))}


def _fmt(v):
    return repr(float(v)) if isinstance(v, float) else str(v)


def build_text(rows, sep, comments, final_newline, crlf=False, comment_char="#"):
    """-> (text, physical line number of each data row)."""
    lines, where = [], []
    for i, r in enumerate(rows):
        if comments == "even" and i % 2 == 0 or comments == "first" and i == 0:
            lines.append(comment_char + " a comment, with 1 2 3 numbers")
        lines.append(sep.join(_fmt(v) for v in r))
        where.append(len(lines))
    if comments == "last":
        lines.append(comment_char + "trailing comment")
    nl = "\r\n" if crlf else "\n"
    txt = nl.join(lines)
    if lines and final_newline:
        txt += nl
    return txt, where


def deliver(txt, route):
    """Context: yields the object to hand to the loader."""
    class _D:
        def __enter__(self_):
            if route == "path":
                os.makedirs(WORK, exist_ok=True)
                fd, self_.p = tempfile.mkstemp(dir=WORK, suffix=".txt")
                with os.fdopen(fd, "w", newline="") as f:
                    f.write(txt)
                return self_.p
            self_.p = None
            self_.h = None
            if route in ("open", "namedtemp", "codecs"):
                # other kinds of open file objects: a handle from open(), a tempfile.NamedTemporaryFile wrapper, a codecs reader
                os.makedirs(WORK, exist_ok=True)
                if route == "namedtemp":
                    self_.h = tempfile.NamedTemporaryFile("w+", dir=WORK, suffix=".txt", encoding=ENC, newline="")
                    self_.h.write(txt)
                    self_.h.seek(0)
                    return self_.h
                fd, self_.p = tempfile.mkstemp(dir=WORK, suffix=".txt")
                with os.fdopen(fd, "w", newline="", encoding=ENC) as f:
                    f.write(txt)
                self_.h = open(self_.p, "r", encoding=ENC, newline="") if route == "open" else codecs.open(self_.p, "r", ENC)
                return self_.h
            if route == "duck":
                return _Reader(txt)
            return _io.StringIO(txt)

        def __exit__(self_, *a):
            if getattr(self_, "h", None) is not None:
                self_.h.close()
            if self_.p:
                os.unlink(self_.p)
    return _D()


class _Reader:
    """A minimal file-like object (read / readline / readlines / iteration), not derived from io.IOBase."""
    def __init__(self, txt):
        self._f = _io.StringIO(txt)

    def read(self, *a):
        return self._f.read(*a)

    def readline(self, *a):
        return self._f.readline(*a)

    def readlines(self, *a):
        return self._f.readlines(*a)

    def __iter__(self):
        return iter(self._f)


def _encodable(txt):
    try:
        txt.encode(ENC)
        return True
    except UnicodeError:
        return False


def _call(fn, obj, **kw):
    with warnings.catch_warnings(record=True) as w:
        warnings.simplefilter("always")
        out = fn(obj, **kw)
    return out, w


def _expect_row_error(fn, txt, route, row, what, kw, accept_zero_based=False):
    with deliver(txt, route) as obj:
        try:
            with warnings.catch_warnings():
                warnings.simplefilter("ignore")
                fn(obj, **kw)
        except ValueError as e:
            msg = str(e)
            rows_ok = [":%d:" % row] + ([":%d:" % (row - 1)] if accept_zero_based else [])
            if not any(r in msg for r in rows_ok):
                raise Violation("%s: %s raises ValueError that does not name row %d: %r" % (fn.__name__, what, row, msg[:300]))
            return
        except Exception as e:
            raise Violation("%s: %s raises %s instead of ValueError: %s" % (fn.__name__, what, type(e).__name__, e))
    raise Violation("%s: %s is accepted; file was %r" % (fn.__name__, what, txt[:300]))


def pred_delimited(case, ctx):
    loader, rows, (sep, rx) = case["loader"], [list(r) for r in case["rows"]], case["delim"]
    kinds = FORMATS[loader]
    fn = getattr(mio, loader)
    route = case["route"]
    kw = {"delimiter": rx}
    marker = case.get("comment_marker", "#")
    if marker != "#":
        kw["comment"] = marker
        ctx.event("comment_keyword:%r" % (marker,))
    if marker is None:
        case = dict(case, comments="none")
    cc = marker or "#"
    fault = case["fault"]
    crlf = case["crlf"] and route == "path"     # universal newlines apply to real files only
    if fault in ("missing_col", "extra_col", "bad_number"):
        i = case["fault_row"] % len(rows)
        j = case["fault_col"] % len(kinds)
        bad = [list(r) for r in rows]
        if fault == "missing_col":
            del bad[i][j]
            what = "a row with a column removed"
        elif fault == "extra_col":
            bad[i].append(1.5)
            what = "a row with an extra column"
        else:
            j = [k for k, t in enumerate(kinds) if t == "f"][case["fault_col"] % kinds.count("f")]
            bad[i][j] = _fmt(bad[i][j]) + "x"
            what = "an unparsable number"
        txt, where = build_text(bad, sep, case["comments"], case["final_newline"], crlf, comment_char=cc)
        if route in ("path", "open", "namedtemp", "codecs") and not _encodable(txt):
            route = "stringio"
        if sep.join(_fmt(v) for v in bad[i]).startswith(cc) and marker is not None:
            ctx.skip("corrupted row begins with the comment marker and is legitimately ignored")
            return False
        if fault == "missing_col" and kinds == ["f", "s"] and j == 0 and rx == r"\s+":
            # '<label>' alone: the label itself may split into 2 columns and the first may even parse as a number
            ctx.skip("removing the time of a labeled event leaves a line that can legitimately parse")
            return False
        if fault == "missing_col" and kinds[-1] == "s" and j < len(kinds) - 1:
            # the label may contain the delimiter and fill the missing column; then the first label piece must fail to parse
            pieces = __import__("re").compile(rx).split(sep.join(_fmt(v) for v in bad[i]).strip(), len(kinds) - 1)
            if len(pieces) == len(kinds):
                try:
                    [float(p) for p, t in zip(pieces, kinds) if t == "f"]
                    ctx.skip("label pieces re-fill the removed column and parse")
                    return False
                except ValueError:
                    pass
        _expect_row_error(fn, txt, route, where[i], what, kw)
        ctx.event("fault:" + fault)
        return True
    if fault == "convention" and rows:
        # parses, but violates the task convention -> returned with a warning
        if kinds[0] == "f" and len(kinds) >= 2 and kinds[1] == "f" and loader != "load_time_series":
            rows[0][0], rows[0][1] = 5.0, 1.0      # reversed interval
        elif loader in ("load_events", "load_labeled_events"):
            if len(rows) < 2:
                rows.append(list(rows[0]))
            rows[0][0], rows[1][0] = 10.0, 2.0     # unsorted
        else:
            fault = None
    txt, where = build_text(rows, sep, case["comments"], case["final_newline"], crlf, comment_char=cc)
    if route in ("path", "open", "namedtemp", "codecs") and not _encodable(txt):
        route = "stringio"
    with deliver(txt, route) as obj:
        out, w = ctx.call(_call, fn, obj, **kw)
    with deliver(txt, "stringio" if route == "path" else ("path" if _encodable(txt) else "stringio")) as obj2:
        out2, _ = ctx.call(_call, fn, obj2, **kw)
    cols = out if isinstance(out, tuple) else (out,)
    cols2 = out2 if isinstance(out2, tuple) else (out2,)
    # expected structure
    nf = kinds.count("f")
    exp_num = np.array([[float(v) for v, t in zip(r, kinds) if t == "f"] for r in rows], dtype=float).reshape(len(rows), nf)
    exp_lab = [r[-1] for r in rows] if kinds[-1] == "s" else None
    if loader in ("load_events",):
        got_num = np.asarray(cols[0], dtype=float).reshape(-1, 1)
    elif loader == "load_labeled_events":
        got_num = np.asarray(cols[0], dtype=float).reshape(-1, 1)
    elif loader in ("load_intervals", "load_labeled_intervals"):
        got_num = np.asarray(cols[0], dtype=float)
    elif loader == "load_valued_intervals":
        got_num = np.column_stack([np.asarray(cols[0], dtype=float).reshape(-1, 2), np.asarray(cols[1], dtype=float)]) if rows else np.zeros((0, 3))
    else:  # time series
        got_num = np.column_stack([np.asarray(cols[0], dtype=float), np.asarray(cols[1], dtype=float)]) if rows else np.zeros((0, 2))
    if rows:
        if got_num.shape != exp_num.shape or got_num.astype(float).tobytes() != exp_num.tobytes():
            raise Violation("%s returned numbers %r, file encodes %r (delimiter %r)" % (loader, got_num.tolist(), exp_num.tolist(), rx))
        if exp_lab is not None and list(cols[-1]) != exp_lab:
            raise Violation("%s returned labels %r, file encodes %r (delimiter %r, separator %r)" % (loader, list(cols[-1]), exp_lab, rx, sep))
    else:
        if sum(np.asarray(c).size if not isinstance(c, list) else len(c) for c in cols) != 0:
            raise Violation("%s on a file without data rows returned %r" % (loader, out))
        ctx.event("no_data_rows")
    # documented structure, also for a file without data rows: (n, 2) interval matrix, flat (n,) columns otherwise
    for k, c in enumerate(cols):
        if isinstance(c, list):
            continue
        want = (len(rows), 2) if (k == 0 and "intervals" in loader) else (len(rows),)
        if np.asarray(c).shape != want:
            raise Violation("%s: column %d has shape %r, documented structure is %r for %d data rows; file %r"
                            % (loader, k, np.asarray(c).shape, want, len(rows), txt[:120]))
    # path and file object agree
    for a, b in zip(cols, cols2):
        same = (list(a) == list(b)) if isinstance(a, list) else (np.asarray(a).tobytes() == np.asarray(b).tobytes() and np.asarray(a).shape == np.asarray(b).shape)
        if not same:
            raise Violation("%s: path and file object give different results: %r vs %r" % (loader, out, out2))
    if fault == "convention":
        if not w:
            raise Violation("%s: content violating the convention was returned without a warning: %r" % (loader, txt[:200]))
        ctx.event("fault:convention_warns")
        return True
    special_label = exp_lab is not None and any(any(c in _WS or c in ",;|" for c in l) for l in exp_lab)
    expo = any("e" in _fmt(v) for r in rows for v in r if isinstance(v, float))
    if special_label:
        ctx.event("label_with_whitespace_or_delimiter")
    if expo:
        ctx.event("exponent_float")
    if case["comments"] != "none":
        ctx.event("comment_lines")
    ctx.event("route:" + route)
    return len(rows) >= 2 and (special_label or expo or case["comments"] != "none")


# ------------------------------------------------------------------ ragged time series

@st.composite
def ragged_case(draw):
    n = draw(st.integers(0, 6))
    rows = [[draw(fl)] + draw(st.lists(fl, max_size=4)) for _ in range(n)]
    fault = draw(st.sampled_from([None, None, None, "bad_time", "bad_value"]))
    if fault and not rows:
        rows.append([1.0, 2.0])
    return {"rows": rows, "delim": draw(st.sampled_from(DELIMS[:6])), "comments": draw(st.sampled_from(["none", "even", "first"])),
            "final_newline": draw(st.booleans()), "route": draw(st.sampled_from(["stringio", "path"])), "fault": fault,
            "fault_row": draw(st.integers(0, 5)), "header": draw(st.booleans())}


def pred_ragged(case, ctx):
    rows, (sep, rx), fault = [list(r) for r in case["rows"]], case["delim"], case["fault"]
    kw = {"delimiter": rx, "header": case["header"]}
    if fault:
        i = case["fault_row"] % len(rows)
        bad = [list(r) for r in rows]
        if fault == "bad_time":
            bad[i][0] = "t" + _fmt(bad[i][0])
        else:
            if len(bad[i]) == 1:
                bad[i].append(1.0)
            bad[i][-1] = _fmt(bad[i][-1]) + "q"
        txt, where = build_text(bad, sep, case["comments"], case["final_newline"])
        # row counter starts at 0 (header=False) or 1 (header=True): either base accepted
        _expect_row_error(mio.load_ragged_time_series, txt, case["route"], where[i], "an unparsable number", kw, accept_zero_based=True)
        ctx.event("fault:" + fault)
        return True
    txt, where = build_text(rows, sep, case["comments"], case["final_newline"])
    with deliver(txt, case["route"]) as obj:
        (t, v), _ = ctx.call(_call, mio.load_ragged_time_series, obj, **kw)
    with deliver(txt, "stringio" if case["route"] == "path" else "path") as obj:
        (t2, v2), _ = ctx.call(_call, mio.load_ragged_time_series, obj, **kw)
    et = np.array([r[0] for r in rows], dtype=float)
    if np.asarray(t, dtype=float).tobytes() != et.tobytes() or len(v) != len(rows):
        raise Violation("load_ragged_time_series times %r, file encodes %r" % (np.asarray(t).tolist(), et.tolist()))
    for k, (a, r) in enumerate(zip(v, rows)):
        ea = np.array(r[1:], dtype=float)
        if np.asarray(a).shape != ea.shape or np.asarray(a, dtype=float).tobytes() != ea.tobytes():
            raise Violation("load_ragged_time_series row %d values %r, file encodes %r" % (k, np.asarray(a).tolist(), ea.tolist()))
    if np.asarray(t2).tobytes() != np.asarray(t).tobytes() or any(np.asarray(a).tobytes() != np.asarray(b).tobytes() for a, b in zip(v, v2)):
        raise Violation("load_ragged_time_series: path and file object differ")
    empty_row = any(len(r) == 1 for r in rows)
    if empty_row:
        ctx.event("time_without_values")
    return len(rows) >= 2 and (empty_row or case["comments"] != "none" or any("e" in _fmt(x) for r in rows for x in r))


# ------------------------------------------------------------------ key / tempo

KEYS = ["C major", "c# minor", "Db major", "F# minor", "B minor", "X", "e major", "ab minor"]


@st.composite
def key_tempo_case(draw):
    which = draw(st.sampled_from(["key", "tempo"]))
    fault = draw(st.sampled_from([None, None, "two_rows", "empty", "convention", "weight", "bad_number", "missing_col"]))
    if which == "key":
        tonic, _, mode = draw(st.sampled_from([k for k in KEYS if " " in k])).partition(" ")
        row = [tonic, mode]
        if fault in ("weight", "bad_number"):
            fault = "two_rows"
    else:
        row = [draw(st.floats(1, 300).map(lambda x: round(x, 2))), draw(st.floats(1, 300).map(lambda x: round(x, 2))),
               draw(st.sampled_from([0.0, 1.0, 0.5, 0.25, 0.3]))]
    return {"which": which, "row": row, "fault": fault, "delim": draw(st.sampled_from(DELIMS[:6])),
            "comments": draw(st.sampled_from(["none", "first", "last"])), "final_newline": draw(st.booleans()),
            "route": draw(st.sampled_from(["stringio", "path"]))}


def pred_key_tempo(case, ctx):
    which, row, fault, (sep, rx) = case["which"], list(case["row"]), case["fault"], case["delim"]
    fn = mio.load_key if which == "key" else mio.load_tempo
    kw = {"delimiter": rx}
    rows = [row]
    expect = "ok"
    if fault == "two_rows":
        rows = [row, list(row)]
        expect = "valueerror"
    elif fault == "empty":
        rows = []
        expect = "valueerror"
    elif fault == "weight":
        rows[0][2] = 1.5 if row[0] > 100 else -0.25
        expect = "valueerror"
    elif fault == "bad_number":
        rows[0][1] = "12o"
        expect = "rowerror"
    elif fault == "missing_col":
        del rows[0][-1]
        expect = "rowerror"
    elif fault == "convention":
        if which == "key":
            rows[0][0] = "H"
        else:
            rows[0][0] = -rows[0][0]
        expect = "warn"
    txt, where = build_text(rows, sep, case["comments"], case["final_newline"])
    if expect == "rowerror":
        _expect_row_error(fn, txt, case["route"], where[0], fault, kw)
        ctx.event("fault:" + fault)
        return True
    with deliver(txt, case["route"]) as obj:
        try:
            out, w = _call(fn, obj, **kw)
        except ValueError as e:
            if expect == "valueerror":
                ctx.event("fault:" + fault)
                return True
            raise Violation("%s raised ValueError on a well-formed file %r: %s" % (fn.__name__, txt, e))
        except Exception as e:
            raise Violation("%s on %s file raised %s: %s (ValueError expected)" % (fn.__name__, fault or "well-formed", type(e).__name__, e))
    if expect == "valueerror":
        raise Violation("%s accepted a file with fault %s: %r -> %r" % (fn.__name__, fault, txt, out))
    if which == "key":
        if out != "%s %s" % (rows[0][0], rows[0][1]):
            raise Violation("load_key returned %r for file %r" % (out, txt))
    else:
        tempi, weight = out
        if np.asarray(tempi, dtype=float).tolist() != [float(rows[0][0]), float(rows[0][1])] or float(weight) != float(rows[0][2]):
            raise Violation("load_tempo returned %r for file %r" % (out, txt))
    if expect == "warn" and not w:
        raise Violation("%s returned convention-violating content without a warning: %r" % (fn.__name__, txt))
    if expect == "ok" and w:
        raise Violation("%s warned on a valid file %r: %s" % (fn.__name__, txt, w[0].message))
    ctx.event(which + ":" + (fault or "valid"))
    return True


# ------------------------------------------------------------------ patterns

@st.composite
def pattern_case(draw):
    npat = draw(st.integers(0, 3))
    pats = []
    for _ in range(npat):
        occs = []
        for _ in range(draw(st.integers(1, 3))):
            occs.append([[draw(fl), draw(st.one_of(fl, st.integers(21, 108).map(float)))] for _ in range(draw(st.integers(1, 4)))])
        pats.append(occs)
    return {"patterns": pats, "route": draw(st.sampled_from(["stringio", "path"])), "fault": draw(st.sampled_from([None, None, None, "bad_number"])),
            "final_newline": draw(st.booleans()), "space": draw(st.booleans())}


def pred_patterns(case, ctx):
    pats = case["patterns"]
    lines = []
    for i, p in enumerate(pats, 1):
        lines.append("pattern%d" % i)
        for j, o in enumerate(p, 1):
            lines.append("occurrence%d" % j)
            for on, mi in o:
                lines.append("%s,%s%s" % (repr(on), " " if case["space"] else "", repr(mi)))
    if case["fault"] == "bad_number":
        if not pats:
            lines = ["pattern1", "occurrence1"]
        lines.append("1.0, abc")
        txt = "\n".join(lines) + "\n"
        with deliver(txt, case["route"]) as obj:
            try:
                mio.load_patterns(obj)
            except ValueError:
                ctx.event("fault:bad_number")
                return True
            except Exception as e:
                raise Violation("load_patterns on an unparsable number raised %s" % type(e).__name__)
        raise Violation("load_patterns accepted an unparsable number")
    txt = "\n".join(lines) + ("\n" if case["final_newline"] and lines else "")
    with deliver(txt, case["route"]) as obj:
        out = ctx.call(mio.load_patterns, obj)
    exp = [[[(float(a), float(b)) for a, b in o] for o in p] for p in pats]
    got = [[[tuple(float(x) for x in nt) for nt in o] for o in p] for p in out]
    same = len(exp) == len(got) and all(
        len(pe) == len(pg) and all(len(oe) == len(og) and all(np.array(a).tobytes() == np.array(b).tobytes() for a, b in zip(oe, og)) for oe, og in zip(pe, pg))
        for pe, pg in zip(exp, got))
    if not same:
        raise Violation("load_patterns returned %r, file encodes %r" % (out, exp))
    return len(pats) >= 2 or any(len(p) >= 2 for p in pats)


# ------------------------------------------------------------------ long files

@st.composite
def long_file_case(draw):
    return {"loader": draw(st.sampled_from(sorted(FORMATS) + ["load_ragged_time_series"])), "rows": draw(st.sampled_from([3000, 12000, 40000, 70000])),
            "seed": draw(st.integers(0, 10 ** 6)), "sep": draw(st.sampled_from(["\t", " ", ","])), "route": draw(st.sampled_from(["stringio", "path"])),
            "grid": draw(st.sampled_from(["hop256", "decimal", "dyadic"]))}


def pred_long_file(case, ctx):
    """A few thousand to 70 000 rows (an f0 track at 5.8 ms hop is ~10 000 rows per minute): every row must come back, in order."""
    rs = np.random.RandomState(case["seed"])
    n, loader, sep = case["rows"], case["loader"], case["sep"]
    g_ = {"hop256": 256 / 44100, "decimal": 0.01, "dyadic": 1 / 64}[case["grid"]]
    t = np.arange(n) * g_
    kw = {} if sep != "," else {"delimiter": ","}
    if loader == "load_ragged_time_series":
        vals = [list(np.round(rs.rand(rs.randint(0, 4)) * 1000, 3)) for _ in range(n)]
        lines = [sep.join([repr(float(a))] + [repr(float(x)) for x in v]) for a, v in zip(t, vals)]
        cols_exp = None
    else:
        kinds = FORMATS[loader]
        cols = []
        for k, kind in enumerate(kinds):
            if kind == "s":
                cols.append(["seg%d" % (i % 37) for i in range(n)])
            elif k == 0:
                cols.append([float(x) for x in t])
            elif k == 1 and "interval" in loader:
                cols.append([float(x) for x in t + g_])
            else:
                cols.append([float(x) for x in np.round(rs.rand(n) * 1000, 4)])
        lines = [sep.join(_fmt(c[i]) for c in cols) for i in range(n)]
        cols_exp = cols
    txt = "\n".join(lines) + "\n"
    with deliver(txt, case["route"]) as obj:
        out, _ = ctx.call(_call, getattr(mio, loader), obj, **kw)
    got = out if isinstance(out, tuple) else (out,)
    if loader == "load_ragged_time_series":
        gt_, gv = got
        if len(gt_) != n or len(gv) != n:
            raise Violation("load_ragged_time_series returned %d times / %d value rows for a file of %d rows (%d characters)" % (len(gt_), len(gv), n, len(txt)))
        if np.asarray(gt_, dtype=float).tobytes() != t.astype(float).tobytes():
            raise Violation("load_ragged_time_series: times differ from the %d written ones" % n)
        for i in (0, n // 2, n - 1):
            if [float(x) for x in gv[i]] != [float(x) for x in vals[i]]:
                raise Violation("load_ragged_time_series: row %d came back as %r, written %r" % (i + 1, list(gv[i]), vals[i]))
    else:
        flat = []
        for c in got:
            a = np.asarray(c) if not isinstance(c, list) else None
            if a is not None and a.ndim == 2:
                flat += [a[:, 0], a[:, 1]]
            else:
                flat.append(c)
        if any(len(c) != n for c in flat):
            raise Violation("%s returned %r rows for a file of %d rows (%d characters)" % (loader, [len(c) for c in flat], n, len(txt)))
        for k, (c, e) in enumerate(zip(flat, cols_exp)):
            same = (list(c) == e) if isinstance(e[0], str) else (np.asarray(c, dtype=float).tobytes() == np.asarray(e, dtype=float).tobytes())
            if not same:
                raise Violation("%s: column %d of a %d-row file differs from what was written" % (loader, k, n))
    ctx.event("characters>=2^%d" % int(math.log2(len(txt))))
    return len(txt) > 2 ** 18


SUBPROPS = [
    SubProp("delimited_loaders", pred_delimited, strategy=delimited_case, n=(4000, 100000), shards=(8, 16), floor=0.25,
            rule="six load_delimited-based loaders; NT = >= 2 rows with special label / exponent float / comment lines, or a fault case"),
    SubProp("ragged_time_series", pred_ragged, strategy=ragged_case, n=(1200, 30000), shards=(2, 8), floor=0.25,
            rule="NT = >= 2 rows with a value-less time, comments or exponent floats, or a fault case"),
    SubProp("key_and_tempo", pred_key_tempo, strategy=key_tempo_case, n=(1200, 20000), shards=(2, 4), floor=0.05,
            rule="single-row files; every (format, fault) combination counts"),
    SubProp("patterns", pred_patterns, strategy=pattern_case, n=(800, 20000), shards=(2, 4), floor=0.2,
            rule="MIREX pattern layout; NT = >= 2 patterns or occurrences, or a fault case"),
    SubProp("long_files", pred_long_file, strategy=long_file_case, n=(24, 300), shards=(8, 16), floor=0.3,
            rule="3 000 .. 70 000 rows on real-world time grids (data a pure function of a drawn seed), seven loaders, path and file object; NT = file longer than 2^18 characters"),
]
