"""Exact, plain-JSON (de)serialisation of generated cases.

Floats are written with repr() (shortest round-trip, so they read back
bit-identically); non-finite floats and numpy arrays/tuples/bytes get tagged
objects.  Used for replay files, evidence samples and case digests.
"""
import hashlib
import json
import math

import numpy as np


def enc(x):
    if x is None or isinstance(x, (bool, str)):
        return x
    if isinstance(x, (np.bool_,)):
        return bool(x)
    if isinstance(x, (int, np.integer)):
        return int(x)
    if isinstance(x, (float, np.floating)):
        x = float(x)
        if math.isfinite(x):
            return x
        return {"__float__": repr(x)}
    if isinstance(x, complex):
        return {"__complex__": [enc(x.real), enc(x.imag)]}
    if isinstance(x, np.ndarray):
        if x.dtype == object:
            return {"__nd__": [enc(v) for v in x.tolist()], "dtype": "object",
                    "shape": list(x.shape)}
        return {"__nd__": enc(x.tolist()), "dtype": str(x.dtype),
                "shape": list(x.shape)}
    if isinstance(x, tuple):
        return {"__tuple__": [enc(v) for v in x]}
    if isinstance(x, list):
        return [enc(v) for v in x]
    if isinstance(x, dict):
        if all(isinstance(k, str) for k in x):
            return {"__dict__": {k: enc(v) for k, v in x.items()}}
        return {"__items__": [[enc(k), enc(v)] for k, v in x.items()]}
    if isinstance(x, bytes):
        return {"__bytes__": x.hex()}
    if isinstance(x, (set, frozenset)):
        return {"__set__": sorted((enc(v) for v in x), key=repr)}
    raise TypeError("cannot encode %r" % type(x))


def dec(x):
    if isinstance(x, list):
        return [dec(v) for v in x]
    if isinstance(x, dict):
        if "__float__" in x:
            return float(x["__float__"])
        if "__complex__" in x:
            return complex(dec(x["__complex__"][0]), dec(x["__complex__"][1]))
        if "__nd__" in x:
            if x["dtype"] == "object":
                a = np.empty(len(x["__nd__"]), dtype=object)
                for i, v in enumerate(x["__nd__"]):
                    a[i] = dec(v)
                return a
            a = np.array(dec(x["__nd__"]), dtype=x["dtype"])
            return a.reshape(x["shape"])
        if "__tuple__" in x:
            return tuple(dec(v) for v in x["__tuple__"])
        if "__dict__" in x:
            return {k: dec(v) for k, v in x["__dict__"].items()}
        if "__items__" in x:
            return {_hashable(dec(k)): dec(v) for k, v in x["__items__"]}
        if "__bytes__" in x:
            return bytes.fromhex(x["__bytes__"])
        if "__set__" in x:
            return set(_hashable(dec(v)) for v in x["__set__"])
        raise TypeError("unknown tagged object %r" % list(x))
    return x


def _hashable(v):
    if isinstance(v, list):
        return tuple(_hashable(i) for i in v)
    return v


def dumps(x, **kw):
    return json.dumps(enc(x), allow_nan=False, ensure_ascii=True, **kw)


def loads(s):
    return dec(json.loads(s))


def digest(x):
    return hashlib.sha1(dumps(x, sort_keys=True).encode()).digest()[:8]


def brief(x, maxlen=24):
    """Encoded form with long arrays/lists truncated -- for evidence samples."""
    e = enc(x)
    return _brief(e, maxlen)


def _brief(e, maxlen):
    if isinstance(e, list):
        if len(e) > maxlen:
            return [_brief(v, maxlen) for v in e[:maxlen]] + ["...(%d more)" % (len(e) - maxlen)]
        return [_brief(v, maxlen) for v in e]
    if isinstance(e, dict):
        return {k: _brief(v, maxlen) for k, v in e.items()}
    if isinstance(e, str) and len(e) > 400:
        return e[:400] + "...(%d chars)" % len(e)
    return e
