"""Keyword coverage probe (diagnostic, off by default): with VERIF_KWCOV=<dir> every worker records, through sys.setprofile,
which keyword parameters of the public mir_eval functions received a non-default value, with which values, and in which
combinations.  tools/kwarg_coverage.py aggregates the dumps into selftest/KWARG_COVERAGE.md.  Nothing in a verdict depends on it."""
import inspect
import json
import os
import sys

MODS = ["alignment", "beat", "chord", "hierarchy", "key", "melody", "multipitch", "onset", "pattern", "segment", "separation",
        "tempo", "transcription", "transcription_velocity", "util", "io", "sonify"]
_codes = {}
_rec = {}


def _build():
    import importlib
    for m in MODS:
        mod = importlib.import_module("mir_eval." + m)
        for name, fn in inspect.getmembers(mod, inspect.isfunction):
            if name.startswith("_") or fn.__module__ != mod.__name__:
                continue
            f = inspect.unwrap(fn)
            try:
                sig = inspect.signature(f)
            except (TypeError, ValueError):
                continue
            d = {p.name: p.default for p in sig.parameters.values() if p.default is not inspect.Parameter.empty}
            if d:
                _codes[f.__code__] = (m + "." + name, d)


def _same(a, b):
    try:
        r = a == b
        return bool(r) if isinstance(r, bool) else False
    except Exception:
        return False


def _prof(frame, event, arg):
    if event != "call":
        return
    hit = _codes.get(frame.f_code)
    if hit is None:
        return
    name, defaults = hit
    caller = frame.f_back
    direct = caller is None or "mir_eval" not in caller.f_code.co_filename
    r = _rec.setdefault(name, {"calls": 0, "direct": 0, "kw": {}, "combos": {}})
    r["calls"] += 1
    r["direct"] += direct
    nd = []
    loc = frame.f_locals
    for k, dv in defaults.items():
        if k in loc and not (loc[k] is dv or _same(loc[k], dv)):
            nd.append(k)
            vals = r["kw"].setdefault(k, {})
            rv = repr(loc[k])[:40]
            if rv in vals or len(vals) < 16:
                vals[rv] = vals.get(rv, 0) + 1
    key = "+".join(sorted(nd))
    r["combos"][key] = r["combos"].get(key, 0) + 1


def start():
    if not _codes:
        _build()
    sys.setprofile(_prof)


def stop_and_dump(dirname, tag):
    sys.setprofile(None)
    os.makedirs(dirname, exist_ok=True)
    with open(os.path.join(dirname, "%s-%d.json" % (tag.replace("/", "_").replace(":", "_"), os.getpid())), "w") as f:
        json.dump(_rec, f)
    _rec.clear()
