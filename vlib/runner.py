"""Runner: drives sub-properties (Hypothesis-generated and/or enumerated cases)
in a process pool, collects counters, writes evidence and replay files.

Exit codes of a check: 0 = held on everything explored, 1 = VIOLATION (a line
`VIOLATION property=<id> replay=<path>` is printed), 2 = harness failure
(never printed as a violation).
"""
import glob
import hashlib
import importlib
import json
import math
import multiprocessing
import os
import signal
import sys
import time
import traceback
import warnings
import zlib
from collections import Counter

VERIF_ROOT = os.path.dirname(os.path.dirname(os.path.abspath(__file__)))
REPO = os.path.realpath(os.environ.get("VERIF_REPO", "/repo"))
TIERS = ("quick", "thorough")
FLOOR_SLACK = 0.35


def import_mir_eval():
    """Import mir_eval from VERIF_REPO's working tree (fresh interpreter per
    check = 'rebuild'); refuse to test any other copy."""
    if sys.path[0] != REPO:
        sys.path.insert(0, REPO)
    import mir_eval  # noqa
    f = os.path.realpath(mir_eval.__file__)
    if not f.startswith(REPO + os.sep):
        raise RuntimeError("mir_eval imported from %s, not from %s" % (f, REPO))
    # every submodule explicitly (display needs matplotlib: not used)
    for m in ("alignment beat chord hierarchy io key melody multipitch onset pattern "
              "segment separation sonify tempo transcription transcription_velocity util").split():
        importlib.import_module("mir_eval." + m)
    return mir_eval


class Violation(Exception):
    """The property under check is false on this case."""


class _Abort(KeyboardInterrupt):
    """Harness error inside a predicate: stop the Hypothesis run at once, no shrinking."""


class Hang(Violation):
    """A call into mir_eval did not return within CALL_TIMEOUT seconds (calls on generated inputs take
    milliseconds; the limit is >= 4 orders of magnitude above that).  Reported without shrinking."""


class _HangAbort(KeyboardInterrupt):
    pass


CALL_TIMEOUT = int(os.environ.get("VERIF_CALL_TIMEOUT", "120"))


def _on_alarm(signum, frame):
    raise Hang("call did not return within %d s" % CALL_TIMEOUT)


from . import jsonio  # noqa: E402


# --------------------------------------------------------------------------
# known findings
# --------------------------------------------------------------------------

def load_known_findings():
    p = os.path.join(VERIF_ROOT, "known_findings.json")
    with open(p) as f:
        return json.load(f)["findings"]


def _sigs(k):
    return k.get("signatures") or [k["signature"]]


def open_signatures(prop):
    """signature -> finding record, for the open findings of one property (a finding may list several signatures)"""
    return {sg: k for k in load_known_findings() if k["property"] == prop and k["status"] == "open" for sg in _sigs(k)}


# --------------------------------------------------------------------------
# context handed to predicates
# --------------------------------------------------------------------------

class Ctx:
    def __init__(self, prop, sub):
        self.prop = prop
        self.sub = sub
        self.events = Counter()
        self.known_hits = Counter()
        self.skips = Counter()
        self._open = open_signatures(prop)

    def event(self, label):
        self.events[label] += 1

    def skip(self, reason):
        """Case not asserted (threshold-adjacent, definition-ambiguous...)."""
        self.skips[reason] += 1

    def known(self, signature, detail=""):
        """Attribute a deviation to a known finding.  Only *open* findings of
        this property suppress; anything else is a violation."""
        if signature in self._open:
            self.known_hits[signature] += 1
            return
        if os.environ.get("VERIF_COLLECT_SIGNATURES"):       # development aid: list every unlisted signature in one run
            self.events["UNLISTED " + signature] += 1
            return
        raise Violation("%s %s (signature not listed as an open known finding)" % (signature, detail))

    def call(self, fn, *a, **k):
        """Call into mir_eval on input the check holds to be valid: any
        exception is a violation (it did not return the documented value)."""
        try:
            signal.alarm(CALL_TIMEOUT)
            try:
                return fn(*a, **k)
            finally:
                signal.alarm(0)
        except Hang as h:
            raise Hang("%s: %s" % (getattr(fn, "__name__", fn), h))
        except Exception as e:  # noqa
            tb = traceback.extract_tb(e.__traceback__)
            where = ""
            for fr in reversed(tb):
                if "mir_eval" in fr.filename:
                    where = " at %s:%d" % (os.path.basename(fr.filename), fr.lineno)
                    break
            raise Violation("%s raised %s: %s%s" % (getattr(fn, "__name__", fn), type(e).__name__, e, where))


class SubProp:
    """One executable sub-property.

    pred(case, ctx) -> truthy if the case is non-trivial by the stated rule;
    raises Violation when the property is false on the case.
    strategy: zero-argument callable returning a Hypothesis strategy (or None).
    enum: callable(tier, shard, nshards) -> iterable of cases (or None);
          enumerated cases are distinct by construction.
    n: (quick, thorough) number of generated examples (total over shards).
    """

    def __init__(self, name, pred, strategy=None, enum=None, n=(200, 4000), shards=(1, 4),
                 floor=0.3, rule="", weight=1.0, exhaustive=False, min_nt=1, machine=None, steps=(20, 40)):
        # machine: callable(ctx, on_run) -> RuleBasedStateMachine subclass whose instances keep .log (list of plain-data steps);
        # pred(case={"steps": [...]}, ctx) must re-execute such a log (used for replay files)
        self.machine = machine
        self.steps = dict(zip(TIERS, steps))
        self.name = name
        self.pred = pred
        self.strategy = strategy
        self.enum = enum
        self.n = dict(zip(TIERS, n))
        self.shards = dict(zip(TIERS, shards))
        self.floor = floor
        self.rule = rule
        self.weight = weight
        self.exhaustive = exhaustive
        self.min_nt = min_nt


def derive_seed(base, name, shard):
    return (zlib.crc32(("%s#%d" % (name, shard)).encode()) ^ (base * 2654435761)) & 0xFFFFFFFF


# --------------------------------------------------------------------------
# worker
# --------------------------------------------------------------------------

def _load_check(modname):
    import_mir_eval()
    return importlib.import_module(modname)


def _scale(mod, tier):
    """per-property budget multiplier (quick, thorough) applied to every generated sub-property: SCALE = (q, t) in the check module"""
    sc = getattr(mod, "SCALE", (1, 1))
    return sc[TIERS.index(tier)]


def run_unit(args):
    modname, subname, tier, seed, shard, nshards, n_override = args
    t0 = time.time()
    res = {"sub": subname, "shard": shard, "evals": 0, "gen_evals": 0, "enum_evals": 0, "nt_execs": 0,
           "nt_digests": [], "nt_enum": 0, "samples": [], "events": {}, "known": {},
           "skips": {}, "violation": None, "error": None, "wall": 0.0}
    try:
        warnings.simplefilter("ignore")
        signal.signal(signal.SIGALRM, _on_alarm)
        mod = _load_check(modname)
        sub = {s.name: s for s in mod.SUBPROPS}[subname]
        ctx = Ctx(mod.PROPERTY_ID, subname)
        if os.environ.get("VERIF_KWCOV"):      # diagnostic keyword-coverage probe, see vlib/kwcov.py
            from vlib import kwcov
            kwcov.start()
        st = {"fail": None, "error": None}
        digests = set()
        samples = []

        # ---- enumerated part -------------------------------------------------
        if sub.enum is not None:
            for case in sub.enum(tier, shard, nshards):
                res["evals"] += 1
                res["enum_evals"] += 1
                try:
                    nt = sub.pred(case, ctx)
                except Violation as v:
                    res["violation"] = {"message": str(v), "case": jsonio.enc(case), "phase": "enumerate"}
                    break
                if nt:
                    res["nt_enum"] += 1
                    if len(samples) < 3:
                        samples.append(jsonio.brief(case))

        # ---- generated part --------------------------------------------------
        if sub.strategy is not None and res["violation"] is None:
            import hypothesis
            from hypothesis import HealthCheck, Phase, given, settings
            n = n_override or int(sub.n[tier] * _scale(mod, tier))
            n = max(1, int(math.ceil(n / float(nshards))))

            def wrapped(case):
                res["evals"] += 1
                res["gen_evals"] += 1
                blob = jsonio.dumps(case, sort_keys=True)
                try:
                    nt = sub.pred(case, ctx)
                except Hang as v:
                    st["fail"] = (blob, str(v))
                    raise _HangAbort()
                except Violation as v:
                    st["fail"] = (blob, str(v))
                    raise
                except Exception:
                    st["error"] = traceback.format_exc() + "\ncase: " + blob[:4000]
                    raise _Abort()
                if nt:
                    res["nt_execs"] += 1
                    d = hashlib.sha1(blob.encode()).digest()[:8]
                    if d not in digests:
                        digests.add(d)
                        if len(samples) < 3:
                            samples.append(jsonio.brief(jsonio.loads(blob)))

            test = given(sub.strategy())(wrapped)
            test = settings(max_examples=n, deadline=None, database=None, report_multiple_bugs=False,
                            suppress_health_check=list(HealthCheck), print_blob=False,
                            phases=[Phase.generate, Phase.shrink])(test)
            test = hypothesis.seed(derive_seed(seed, subname, shard))(test)
            try:
                test()
            except (Violation, _HangAbort):
                blob, msg = st["fail"]
                res["violation"] = {"message": msg, "case": json.loads(blob), "phase": "generate"}
            except _Abort:
                res["error"] = st["error"]
            except BaseException as e:  # noqa
                # Hypothesis reports "flaky" when a failing case passes on immediate re-execution.  The predicate is a pure function of
                # the case and the library, so this means the LIBRARY's answer depended on what was called before (sticky state):
                # the violation was genuinely observed on the real code and is reported, with that caveat, rather than hidden as a harness error.
                if st["fail"] is not None and type(e).__name__ in ("Flaky", "FlakyFailure", "FlakyReplay", "ExceptionGroup", "BaseExceptionGroup"):
                    blob, msg = st["fail"]
                    res["violation"] = {"message": msg + "  [observed once; the same case passed when re-executed immediately afterwards, i.e. the "
                                        "library's result depends on earlier calls - the replay file may not reproduce it in a fresh process]",
                                        "case": json.loads(blob), "phase": "generate-flaky"}
                else:
                    raise
        # ---- stateful part (rule-based state machine over call histories) -----
        if sub.machine is not None and res["violation"] is None and res["error"] is None:
            import hypothesis
            from hypothesis import HealthCheck, Phase, settings
            from hypothesis.stateful import run_state_machine_as_test
            n = n_override or int(sub.n[tier] * _scale(mod, tier))
            n = max(1, int(math.ceil(n / float(nshards))))
            box = {"failed": None}

            def on_run(log, nontrivial, failed_msg=None):
                """called by the machine's teardown (log = plain-data steps of this run)"""
                res["evals"] += 1
                res["gen_evals"] += 1
                res["events"]["steps"] = res["events"].get("steps", 0) + len(log)
                if failed_msg is not None:
                    box["failed"] = (jsonio.enc({"steps": log}), failed_msg)
                elif nontrivial:
                    res["nt_execs"] += 1
                    d = hashlib.sha1(jsonio.dumps(log, sort_keys=True).encode()).digest()[:8]
                    if d not in digests:
                        digests.add(d)
                        if len(samples) < 2:
                            samples.append(jsonio.brief({"steps": log}, maxlen=12))
            M = sub.machine(ctx, on_run)
            M = hypothesis.seed(derive_seed(seed, subname, shard))(M)
            try:
                run_state_machine_as_test(M, settings=settings(max_examples=n, stateful_step_count=sub.steps[tier], deadline=None, database=None,
                                                              report_multiple_bugs=False, suppress_health_check=list(HealthCheck), print_blob=False,
                                                              phases=[Phase.generate, Phase.shrink]))
            except Violation as v:
                case, msg = box["failed"] if box["failed"] else ({"steps": []}, str(v))
                res["violation"] = {"message": msg, "case": case, "phase": "stateful"}
            except BaseException as e:  # noqa
                # same rule as for plain cases: a history that violated the property once and passes (or fails differently) when Hypothesis
                # replays it means that the library's behaviour depends on what the PROCESS did before - itself a purity violation
                if box["failed"] is not None and type(e).__name__ in ("Flaky", "FlakyFailure", "FlakyReplay", "FlakyStrategyDefinition", "ExceptionGroup", "BaseExceptionGroup"):
                    case, msg = box["failed"]
                    res["violation"] = {"message": msg + "  [observed once; the same history behaved differently when re-executed in this process, i.e. the "
                                        "library's result depends on earlier calls - the replay file may not reproduce it in a fresh process]",
                                        "case": case, "phase": "stateful-flaky"}
                else:
                    raise
        res["nt_digests"] = [d.hex() for d in digests]
        res["samples"] = samples
        for k_, v_ in ctx.events.items():
            res["events"][k_] = res["events"].get(k_, 0) + v_
        res["known"] = dict(ctx.known_hits)
        res["skips"] = dict(ctx.skips)
    except BaseException:  # harness failure of any kind
        res["error"] = traceback.format_exc()
    if os.environ.get("VERIF_KWCOV"):
        from vlib import kwcov
        kwcov.stop_and_dump(os.environ["VERIF_KWCOV"], "%s.%s.%d" % (modname.split(".")[-1], subname, shard))
    res["wall"] = time.time() - t0
    return res


# --------------------------------------------------------------------------
# orchestration
# --------------------------------------------------------------------------

def _write_replay(prop, subname, violation, seed, tier):
    outdir = os.path.join(VERIF_ROOT, "replays", "out")
    os.makedirs(outdir, exist_ok=True)
    body = {"property": prop, "subprop": subname, "message": violation["message"],
            "seed": seed, "tier": tier, "case": violation["case"]}
    blob = json.dumps(body, indent=1, sort_keys=True)
    h = hashlib.sha1(json.dumps(violation["case"], sort_keys=True).encode()).hexdigest()[:10]
    safe = "".join(c if c.isalnum() or c in "._-" else "_" for c in subname)
    path = os.path.join(outdir, "%s-%s-%s.json" % (prop, safe, h))
    with open(path, "w") as f:
        f.write(blob + "\n")
    return path


def replay_file(path, quiet=False):
    """Re-execute a stored case through its predicate, no Hypothesis in the loop.
    Returns (violated: bool, message)."""
    with open(path) as f:
        body = json.load(f)
    prop = body["property"]
    mod = _load_check("checks." + prop.lower())
    sub = {s.name: s for s in mod.SUBPROPS}[body["subprop"]]
    ctx = Ctx(prop, sub.name)
    case = jsonio.dec(body["case"])
    warnings.simplefilter("ignore")
    signal.signal(signal.SIGALRM, _on_alarm)
    try:
        sub.pred(case, ctx)
    except Violation as v:
        return True, str(v), ctx
    return False, "", ctx


def run_property(prop, tier, seed, only=None, n_override=None, procs=None):
    t0 = time.time()
    modname = "checks." + prop.lower()
    mod = _load_check(modname)
    assert mod.PROPERTY_ID == prop
    signal.signal(signal.SIGALRM, _on_alarm)
    subs = [s for s in mod.SUBPROPS if not only or s.name in only]
    if not subs:
        print("no sub-properties selected", file=sys.stderr)
        return 2
    violations = []   # (subname, path, message)
    errors = []
    notes = []

    # ---- known findings: re-confirm each open one and announce it -----------
    kf_state = []
    seen_kf = set()
    for sig, k in sorted(open_signatures(prop).items(), key=lambda kv: kv[1]["id"]):
        if k["id"] in seen_kf:
            continue
        seen_kf.add(k["id"])
        ex = k.get("example")
        status = "not re-executed (no example)"
        if ex is not None:
            sub = {s.name: s for s in mod.SUBPROPS}.get(ex["subprop"])
            if sub is None:
                errors.append("known finding %s names unknown sub-property %s" % (k["id"], ex["subprop"]))
                continue
            ctx = Ctx(prop, sub.name)
            try:
                warnings.simplefilter("ignore")
                sub.pred(jsonio.dec(ex["case"]), ctx)
                status = "reproduced" if any(ctx.known_hits.get(x) for x in _sigs(k)) else "example no longer triggers it"
            except Violation as v:
                status = "example now fails differently: %s" % v
                path = _write_replay(prop, sub.name, {"message": str(v), "case": ex["case"]}, seed, tier)
                violations.append((sub.name, path, str(v)))
            except Exception:
                errors.append("known finding %s example crashed the harness:\n%s" % (k["id"], traceback.format_exc()))
                continue
        kf_state.append({"id": k["id"], "signature": sig, "signatures": _sigs(k), "status": status, "what": k["what"], "hits": 0})
        if status == "reproduced":
            print("KNOWN-FINDING: property=%s %s [%s] %s" % (prop, k["id"], k["where"], k["what"]))
        else:
            notes.append("known finding %s: %s" % (k["id"], status))

    # ---- committed regression replays ---------------------------------------
    regress = sorted(glob.glob(os.path.join(VERIF_ROOT, "replays", "regress", prop, "*.json")))
    regress_run = 0
    for path in regress:
        try:
            bad, msg, _ = replay_file(path)
        except Exception:
            errors.append("regress replay %s crashed:\n%s" % (path, traceback.format_exc()))
            continue
        regress_run += 1
        if bad:
            with open(path) as f:
                sname = json.load(f)["subprop"]
            violations.append((sname, path, msg))

    # ---- generated / enumerated units ---------------------------------------
    units = []
    for s in subs:
        ns = s.shards[tier]
        for sh in range(ns):
            units.append((s.weight * (s.n[tier] if (s.strategy or s.machine) else 1e6) / ns,
                          (modname, s.name, tier, seed, sh, ns, n_override)))
    units.sort(key=lambda u: -u[0])
    nproc = procs or min(int(os.environ.get("VERIF_PROCS", "16")), len(units))
    results = []
    if nproc <= 1:
        for _, a in units:
            results.append(run_unit(a))
    else:
        ctxm = multiprocessing.get_context("fork")
        with ctxm.Pool(nproc, maxtasksperchild=1) as pool:
            for r in pool.imap_unordered(run_unit, [a for _, a in units], chunksize=1):
                results.append(r)
    results.sort(key=lambda r: (r["sub"], r["shard"]))

    per_sub = {}
    for s in subs:
        per_sub[s.name] = {"evaluations": 0, "generated": 0, "enumerated": 0, "nt": set(), "nt_enum": 0, "nt_execs": 0,
                           "samples": [], "events": Counter(), "known": Counter(), "skips": Counter(),
                           "wall_s": 0.0, "exhaustive_part": bool(s.enum), "rule": s.rule}
    for r in results:
        a = per_sub[r["sub"]]
        a["evaluations"] += r["evals"]
        a["generated"] += r["gen_evals"]
        a["enumerated"] += r["enum_evals"]
        a["nt"].update(r["nt_digests"])
        a["nt_execs"] += r.get("nt_execs", 0)
        a["nt_enum"] += r["nt_enum"]
        a["samples"].extend(r["samples"])
        a["events"].update(r["events"])
        a["known"].update(r["known"])
        a["skips"].update(r["skips"])
        a["wall_s"] = max(a["wall_s"], r["wall"])
        if r["error"]:
            errors.append("sub-property %s shard %d: harness error\n%s" % (r["sub"], r["shard"], r["error"]))
        if r["violation"]:
            path = _write_replay(prop, r["sub"], r["violation"], seed, tier)
            violations.append((r["sub"], path, r["violation"]["message"]))

    # ---- non-triviality floors (harness failure, not a violation) ------------
    failed_subs = {v[0] for v in violations}
    for s in subs:
        a = per_sub[s.name]
        ntc = len(a["nt"]) + a["nt_enum"]
        if s.name in failed_subs or any(s.name in e for e in errors):
            continue
        if a["generated"] and not n_override:
            # fraction of generated executions that were non-trivial (not the distinct count: on a small finite domain the
            # number of DISTINCT cases saturates while the number of executions keeps growing)
            frac = a["nt_execs"] / float(a["generated"])
            # Declared floors are design targets (typical fractions are 1.5-3x higher).  The run is failed only below
            # FLOOR_SLACK x target: the floor exists to catch a generator that stopped producing the interesting shape,
            # not seed-to-seed variation or the shift a changed library induces in the case distribution.
            if frac < s.floor * FLOOR_SLACK:
                errors.append("sub-property %s: non-trivial fraction %.3f (%d/%d) below floor %.2f x %.2f -- generator problem"
                              % (s.name, frac, a["nt_execs"], a["generated"], s.floor, FLOOR_SLACK))
        if ntc < s.min_nt:
            errors.append("sub-property %s: only %d non-trivial cases" % (s.name, ntc))

    # ---- evidence ----------------------------------------------------------------
    total_evals = sum(a["evaluations"] for a in per_sub.values())
    total_nt = sum(len(a["nt"]) + a["nt_enum"] for a in per_sub.values())
    samples = []
    for name, a in per_sub.items():
        for smp in a["samples"][:2]:
            samples.append({"subprop": name, "case": smp})
    for ks in kf_state:
        ks["hits"] = sum(a["known"].get(x, 0) for a in per_sub.values() for x in ks["signatures"])
    table = {}
    for name, a in per_sub.items():
        table[name] = {"evaluations": a["evaluations"], "generated": a["generated"], "enumerated": a["enumerated"],
                       "distinct_nontrivial": len(a["nt"]) + a["nt_enum"],
                       "classes": dict(sorted(a["events"].items())),
                       "known_finding_hits": dict(a["known"]), "not_asserted": dict(a["skips"]),
                       "wall_s": round(a["wall_s"], 2), "rule": a["rule"]}
    exhaustive = bool(getattr(mod, "EXHAUSTIVE", False))
    ev = {
        "property_id": prop, "tier": tier, "seed": int(seed), "level": mod.LEVEL,
        "coverage": {
            "evaluations": int(total_evals), "distinct_nontrivial": int(total_nt),
            "rule": mod.RULE, "samples": samples[:60] if samples else [],
            "exhaustive": exhaustive,
            "sub_properties": table,
            "regress_replays_run": regress_run,
            "known_findings": kf_state,
            "notes": notes + list(getattr(mod, "NOTES", [])),
            "repo": REPO,
        },
        "assumptions": list(mod.ASSUMPTIONS),
        "wall_s": round(time.time() - t0, 2),
        "violations": len(violations),
    }
    if not only and not n_override and not os.environ.get("VERIF_NO_EVIDENCE"):
        os.makedirs(os.path.join(VERIF_ROOT, "evidence"), exist_ok=True)
        with open(os.path.join(VERIF_ROOT, "evidence", prop + ".json"), "w") as f:
            json.dump(ev, f, indent=1, sort_keys=True)
            f.write("\n")

    # ---- report -------------------------------------------------------------------
    print("%s %s seed=%s: %d evaluations, %d distinct non-trivial, %d sub-properties, %.1fs"
          % (prop, tier, seed, total_evals, total_nt, len(subs), time.time() - t0))
    for name, a in table.items():
        print("  %-44s evals=%-8d nt=%-7d kf=%-5d skip=%-5d %.1fs" % (
            name, a["evaluations"], a["distinct_nontrivial"], sum(a["known_finding_hits"].values()),
            sum(a["not_asserted"].values()), a["wall_s"]))
    for n_ in notes:
        print("note:", n_)
    for e in errors:
        print("HARNESS-ERROR:", e, file=sys.stderr)
    seen_paths = set()
    for subname, path, msg in violations:
        if path in seen_paths:
            continue
        seen_paths.add(path)
        print("violation in %s: %s" % (subname, msg[:1500]))
        print("VIOLATION property=%s replay=%s" % (prop, path))
    if violations:
        return 1
    if errors:
        return 2
    return 0
