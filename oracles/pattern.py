"""Reference model of mir_eval.pattern (Collins, MIREX Discovery of Repeated Themes & Sections), pure Python (A.7).
A pattern is a list of occurrences, an occurrence a list of (onset, midi) pairs."""


def f1(p, r):
    return 0.0 if p == 0 and r == 0 else 2 * p * r / (p + r)


def card(A, B):
    return len(set(map(tuple, A)) & set(map(tuple, B))) / max(len(A), len(B))


def sm(P, Q):
    return [[card(a, b) for b in Q] for a in P]


def establishment(R, E):
    S = [[max(max(row) for row in sm(P, Q)) for Q in E] for P in R]
    p = sum(max(S[i][j] for i in range(len(R))) for j in range(len(E))) / len(E)
    r = sum(max(S[i]) for i in range(len(R))) / len(R)
    return f1(p, r), p, r


def occurrence(R, E, c, multiset=True):
    rel, OP, OR = [], {}, {}
    for i, P in enumerate(R):
        for j, Q in enumerate(E):
            s = sm(P, Q)
            if max(max(row) for row in s) >= c:
                OP[i, j] = sum(max(s[a][b] for a in range(len(P))) for b in range(len(Q))) / len(Q)
                OR[i, j] = sum(max(row) for row in s) / len(P)
                rel.append((i, j))
    if not rel:
        return 0.0, 0.0, 0.0
    rows = [i for i, _ in rel]
    cols = [j for _, j in rel]
    if not multiset:
        rows, cols = sorted(set(rows)), sorted(set(cols))
    p = sum(max(OP.get((i, j), 0.0) for i in rows) for j in cols) / len(cols)
    r = sum(max(OR.get((i, j), 0.0) for j in cols) for i in rows) / len(rows)
    return f1(p, r), p, r


def three_layer(R, E):
    def l1(a, b):
        s = len(set(map(tuple, a)) & set(map(tuple, b)))
        return f1(s / len(a), s / len(b))

    def l2(P, Q):
        Fm = [[l1(a, b) for b in Q] for a in P]
        p = sum(max(Fm[i][j] for i in range(len(P))) for j in range(len(Q))) / len(Q)
        r = sum(max(row) for row in Fm) / len(P)
        return f1(p, r)
    F2 = [[l2(P, Q) for Q in E] for P in R]
    p = sum(max(F2[i][j] for i in range(len(R))) for j in range(len(E))) / len(E)
    r = sum(max(row) for row in F2) / len(R)
    return f1(p, r), p, r


def standard(R, E, tol=1e-5):
    k = 0
    for P in R:
        p = P[0]
        for Q in E:
            q = Q[0]
            if len(p) != len(q):
                continue
            if len(p) == 1:
                k += 1
                break
            d = [(a[0] - b[0], a[1] - b[1]) for a, b in zip(p, q)]
            if max(max(abs(d[i + 1][0] - d[i][0]), abs(d[i + 1][1] - d[i][1])) for i in range(len(d) - 1)) < tol:
                k += 1
                break
    p, r = k / len(E), k / len(R)
    return f1(p, r), p, r
