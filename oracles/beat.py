"""Reference models of the beat metrics (Davies et al. 2009 / Beat Evaluation Toolbox), pure Python.
Inputs are lists of floats on a dyadic lattice; Fractions are used where a threshold is compared."""
import math
import statistics
from fractions import Fraction as F

from oracles.matching import kuhn


def fbeta(p, r, beta=1.0):
    if p == 0 and r == 0:
        return 0.0
    return (1 + beta ** 2) * p * r / (beta ** 2 * p + r)


def f_measure(ref, est, thr):
    if not ref or not est:
        return 0.0
    adj = [[j for j, e in enumerate(est) if abs(F(r) - F(e)) <= F(thr)] for r in ref]
    m = kuhn(adj, len(ref))
    if m == 0:
        return 0.0
    p, r = m / len(est), m / len(ref)
    return 2 * p * r / (p + r)


def variations(ref):
    ref = list(ref)
    mids = [(a + b) / 2 for a, b in zip(ref[:-1], ref[1:])]
    double = []
    for i, a in enumerate(ref):
        double.append(a)
        if i < len(mids):
            double.append(mids[i])
    return [ref, mids, double, ref[0::2], ref[1::2]]


def cemgil(ref, est, sigma):
    if not ref or not est:
        return 0.0, 0.0
    accs = []
    for rv in variations(ref):
        s = sum(max(math.exp(-((a - b) ** 2) / (2 * sigma ** 2)) for b in est) for a in rv)
        accs.append(s / (0.5 * (len(est) + len(rv))))
    return accs[0], max(accs)


def rhe(x):
    """round half to even of a Fraction -> int"""
    fl = math.floor(x)
    d = x - fl
    if d > F(1, 2):
        return fl + 1
    if d < F(1, 2):
        return fl
    return fl if fl % 2 == 0 else fl + 1


def p_score(ref, est, thr):
    """-> value, or None when not asserted (single 10 ms bin, or the window product within 1e-9 of a half)."""
    if len(ref) <= 1 or len(est) <= 1:
        return 0.0
    off = min(min(ref), min(est))
    R = sorted({math.ceil((F(x) - F(off)) * 100) for x in ref})
    E = sorted({math.ceil((F(x) - F(off)) * 100) for x in est})
    if len(R) < 2:
        return None
    d = [b - a for a, b in zip(R[:-1], R[1:])]
    med = statistics.median(d)
    prod = thr * float(med)              # float product, as a user writing 0.2 * median gets
    if abs((prod % 1.0) - 0.5) < 1e-9:
        return None
    w = rhe(F(prod))
    cnt = sum(1 for r in R for e in E if abs(r - e) <= w)
    return cnt / max(len(ref), len(est))


def goto(ref, est, thr=0.35, mu=0.2, sigma=0.2):
    n = len(ref)
    if n == 0 or len(est) == 0:
        return 0.0
    err = [1.0] * n
    for k in range(1, n - 1):
        prev = 0.5 * (ref[k] - ref[k - 1])
        nxt = 0.5 * (ref[k + 1] - ref[k])
        inw = [b for b in est if ref[k] - prev <= b < ref[k] + nxt]
        if len(inw) == 1:
            off = inw[0] - ref[k]
            err[k] = off / prev if off < 0 else off / nxt
    if any(abs(abs(e) - thr) < 1e-9 for e in err):
        return None                       # a beat error within rounding distance of the threshold: not asserted
    inc = [i for i, e in enumerate(err) if abs(e) > thr]
    track = None
    if len(inc) < 3:
        track = err[inc[0] + 1:inc[-1] - 1]
    else:
        gaps = [b - a for a, b in zip(inc[:-1], inc[1:])]
        L = max(gaps)
        s = gaps.index(L)
        if L - 1 > 0.25 * (n - 2):
            track = err[inc[s]:inc[s + 1] + 1]
    if track is None or len(track) < 2:
        return 0.0
    m = sum(abs(x) for x in track) / len(track)
    mean = sum(track) / len(track)
    sd = math.sqrt(sum((x - mean) ** 2 for x in track) / (len(track) - 1))
    if abs(m - mu) < 1e-9 or abs(sd - sigma) < 1e-9:
        return None                       # mean / std of the track within rounding distance of goto_mu / goto_sigma (summation order decides)
    return 1.0 if (m < mu and sd < sigma) else 0.0


def continuity(ref, est, pt=0.175, qt=0.175):
    if len(ref) <= 1 or len(est) <= 1:
        return (0.0,) * 4
    cs, ts = [], []
    for rv in variations(ref):
        nA = max(len(rv), len(est))
        used = [False] * nA
        succ = [0] * nA
        for m, b in enumerate(est):
            d = [abs(b - a) for a in rv]
            k = min(range(len(rv)), key=lambda i: (d[i], i))
            md = d[k]
            ok = False
            if not used[k]:
                if m == 0 or k == 0:
                    ri = rv[k + 1] - rv[k] if k + 1 < len(rv) else rv[k] - rv[k - 1]
                    ei = est[m + 1] - est[m] if m + 1 < len(est) else est[m] - est[m - 1]
                else:
                    ri = rv[k] - rv[k - 1]
                    ei = est[m] - est[m - 1]
                if ri == 0:
                    phase = period = math.inf
                else:
                    phase = abs(md / ri)
                    period = abs(1 - ei / ri)
                if phase < pt and period < qt:
                    used[k] = True
                    ok = True
            succ[m] = 1 if ok else 0
        best = run = 0
        for s in succ:
            run = run + 1 if s else 0
            best = max(best, run)
        cs.append(best / nA)
        ts.append(sum(succ) / nA)
    return cs[0], ts[0], max(cs), max(ts)


class EdgeAdjacent(Exception):
    pass


def _hist_entropy(errs, bins):
    """Histogram with `bins` equal-width bins on [-0.5, 0.5] (last bin closed), entropy in bits."""
    counts = [0] * bins
    for x in errs:
        if not (-0.5 <= x <= 0.5):
            continue
        pos = (F(x) + F(1, 2)) * bins
        if x != 0 and 0 < pos < bins and abs(pos - round(pos)) < F(1, 10 ** 9):
            raise EdgeAdjacent()      # within rounding distance of an interior histogram edge: not asserted
        i = int(math.floor(pos))
        if i == bins:
            i = bins - 1
        counts[i] += 1
    tot = sum(counts)
    return -sum(c / tot * math.log2(c / tot) for c in counts if c)


def info_gain(ref, est, bins, variant="toolbox"):
    """variant 'toolbox': published semantics (if / elseif / else);
    variant 'code': the deviation of known finding KF-06 (first 'if' falls through to the else branch)."""
    if len(ref) <= 1 or len(est) <= 1:
        return 0.0

    def entropy(anns, beats):
        errs = []
        for b in beats:
            d = [b - a for a in anns]
            k = min(range(len(anns)), key=lambda i: (abs(d[i]), i))
            e = d[k]
            last = len(anns) - 1
            if variant == "toolbox":
                if k == 0:
                    iv = 0.5 * (anns[1] - anns[0])
                elif k == last:
                    iv = 0.5 * (anns[-1] - anns[-2])
                elif e < 0:
                    iv = 0.5 * (anns[k] - anns[k - 1])
                else:
                    iv = 0.5 * (anns[k + 1] - anns[k])
            else:
                if k == 0:
                    iv = 0.5 * (anns[1] - anns[0])
                if k == last:
                    iv = 0.5 * (anns[-1] - anns[-2])
                else:
                    if e < 0:
                        iv = 0.5 * (anns[k] - anns[k - 1])   # k == 0: Python's negative index wraps to the last annotation
                    else:
                        iv = 0.5 * (anns[k + 1] - anns[k])
            errs.append(0.5 * e / iv)
        errs = [((x + 0.5) % -1) + 0.5 for x in errs]
        return _hist_entropy(errs, bins)
    fe = entropy(ref, est)
    be = entropy(est, ref)
    norm = math.log2(bins)
    return (norm - max(fe, be)) / norm


def kf06_possible(ref, est):
    """True iff some beat is nearest to the first annotation of the other sequence and precedes it."""
    def one(anns, beats):
        for b in beats:
            d = [abs(b - a) for a in anns]
            k = min(range(len(anns)), key=lambda i: (d[i], i))
            if k == 0 and b < anns[0] and len(anns) > 1:
                return True
        return False
    return one(ref, est) or one(est, ref)
