"""Triplet-ranking definition of the hierarchy T-/L-measures (pure Python, O(n^3))."""
import math
from fractions import Fraction as F


def n_frames(T, fs):
    return int(math.floor(F(T) / F(fs)))


def fidx(t, fs):
    return int(math.floor(F(t) / F(fs)))


def lca(ivs, fs):
    """lca[i][j] = deepest (1-based) level at which frames i and j lie in the same segment, 0 if none."""
    T = max(e for iv in ivs for _, e in iv)
    n = n_frames(T, fs)
    M = [[0] * n for _ in range(n)]
    for lvl, iv in enumerate(ivs, 1):
        for s, e in iv:
            a, b = fidx(s, fs), fidx(e, fs)
            for i in range(a, b):
                for j in range(a, b):
                    if lvl > M[i][j]:
                        M[i][j] = lvl
    return M


def meet(ivs, labs, fs):
    """meet[i][j] = deepest level at which the (case-folded) labels of frames i and j agree, 0 if none."""
    T = max(e for iv in ivs for _, e in iv)
    n = n_frames(T, fs)
    M = [[0] * n for _ in range(n)]
    for lvl, (iv, lb) in enumerate(zip(ivs, labs), 1):
        fl = [None] * n
        for (s, e), l in zip(iv, lb):
            for i in range(fidx(s, fs), fidx(e, fs)):
                fl[i] = str(l).lower()
        for i in range(n):
            for j in range(n):
                if fl[i] is not None and fl[i] == fl[j] and lvl > M[i][j]:
                    M[i][j] = lvl
    return M


def gauc(R, E, transitive, w):
    """Mean over query frames q (with >= 1 reference triple) of the fraction of triples (q,i,j), i,j in
    [q-w, q+w) \\ {q}, with R[q][i] - R[q][j] > 0 (transitive) or == 1 (reduced), for which E[q][i] > E[q][j].
    Returns (score, number of queries counted)."""
    n = len(R)
    if w is None:
        w = n
    tot = F(0)
    cnt = 0
    for q in range(n):
        idx = [i for i in range(max(0, q - w), min(n, q + w)) if i != q]
        num = 0
        good = 0
        for i in idx:
            for j in idx:
                d = R[q][i] - R[q][j]
                if (d > 0) if transitive else (d == 1):
                    num += 1
                    if E[q][i] > E[q][j]:
                        good += 1
        if num:
            tot += F(good, num)
            cnt += 1
    return (float(tot / cnt) if cnt else 0.0), cnt
