"""Reference model of mir_eval.melody (Salamon et al. 2014; Bittner & Bosch 2019), pure Python (A.3)."""
import bisect
import math


def cents(f, base=10.0):
    return 0.0 if f == 0 else 1200.0 * math.log2(abs(f) / base)


def prep(t, f, v):
    t, f = list(t), list(f)
    v = None if v is None else list(v)
    if t[0] > 0:
        t = [0.0] + t
        f = [f[0]] + f
        if v is not None:
            v = [v[0]] + v
    return t, f, v


def voicing(f, v):
    if v is None:
        return [1.0 if x > 0 else 0.0 for x in f]
    return [0.0 if x == 0 else y for x, y in zip(f, v)]


def same_base(t, tn):
    return len(t) == len(tn) and all(abs(a - b) <= 1e-8 + 1e-5 * abs(b) for a, b in zip(t, tn))


class NearestTie(Exception):
    """a new time lies exactly midway between two samples under kind='nearest' (either neighbour acceptable)"""


def resample(t, c, v, tn, kind="linear"):
    if same_base(t, tn):
        return list(c), list(v)
    t, c, v = list(t), list(c), list(v)
    if max(tn) > max(t):
        t.append(max(tn))
        c.append(0.0)
        v.append(0.0)
    held = list(c)
    for i in range(1, len(c)):
        if c[i] == 0:
            held[i] = held[i - 1]
    binary = all(x in (0, 1) for x in v)

    def prev(x):
        return bisect.bisect_right(t, x) - 1

    def lin(y, x):
        i = prev(x)
        if t[i] == x or i == len(t) - 1:
            return y[i]
        return y[i] + (y[i + 1] - y[i]) * (x - t[i]) / (t[i + 1] - t[i])

    def near(y, x):
        i = prev(x)
        if i == len(t) - 1:
            return y[i]
        if (x - t[i]) == (t[i + 1] - x) and y[i] != y[i + 1]:
            raise NearestTie()
        return y[i] if (x - t[i]) <= (t[i + 1] - x) else y[i + 1]
    oc, ov = [], []
    for x in tn:
        if kind == "linear":
            val = lin(held, x) * (1.0 if c[prev(x)] != 0 else 0.0)
        elif kind == "zero":
            val = c[prev(x)]
        else:
            val = near(c, x)
        oc.append(val)
        if kind == "nearest":
            ov.append(near(v, x))
        elif kind == "linear" and not binary:
            ov.append(lin(v, x))
        else:
            ov.append(v[prev(x)])
    return oc, ov


def hopbase(hop, T):
    n = int(math.floor(round(T, 10) / hop))
    return [round(hop * k, 10) for k in range(n + 1)]


def to_cent_voicing(rt, rf, et, ef, ev=None, rr=None, hop=None, kind="linear", base=10.0):
    rt, rf, rr = prep(rt, rf, rr)
    et, ef, ev = prep(et, ef, ev)
    rv = voicing(rf, rr)
    evv = voicing(ef, ev)
    rc = [cents(x, base) for x in rf]
    ec = [cents(x, base) for x in ef]
    if hop is not None:
        rc, rv = resample(rt, rc, rv, hopbase(hop, max(rt)), kind)
        ec, evv = resample(et, ec, evv, hopbase(hop, max(et)), kind)
    else:
        ec, evv = resample(et, ec, evv, rt, kind)
    n = len(rc)
    ec = (ec + [0.0] * n)[:n]
    evv = (evv + [0.0] * n)[:n]
    return rv, rc, evv, ec


def measures(rv, rc, ev, ec, tol=50):
    """-> (recall, false alarm, RPA, RCA, OA), adjacent flag"""
    n = len(rv)
    voiced = [1.0 if x > 0 else 0.0 for x in rv]
    nv = sum(voiced)
    rec = 1 if nv == 0 else sum(e * b for e, b in zip(ev, voiced)) / nv
    nu = n - nv
    fa = 0 if nu == 0 else sum(e * (1 - b) for e, b in zip(ev, voiced)) / nu
    adjacent = False

    def chroma_d(r, e):
        d = abs(r - e)
        return abs(d - 1200 * math.floor(d / 1200 + 0.5))
    ok, okc = [], []
    for r, e in zip(rc, ec):
        if r != 0 and e != 0:
            d, dc = abs(r - e), chroma_d(r, e)
            if abs(d - tol) < 1e-6 or abs(dc - tol) < 1e-6:
                adjacent = True
            ok.append(d < tol)
            okc.append(dc < tol)
        else:
            ok.append(False)
            okc.append(False)
    sv = sum(rv)
    rpa = 0.0 if sv == 0 else sum(w for w, o in zip(rv, ok) if o) / sv
    rca = 0.0 if sv == 0 else sum(w for w, o in zip(rv, okc) if o) / sv
    ratio = 0.0 if sv == 0 else nv / sv
    oa = (ratio * sum(w * e for w, e, o in zip(rv, ev, ok) if o) + sum((1 - b) * (1 - e) for b, e in zip(voiced, ev))) / n
    return (rec, fa, rpa, rca, oa), adjacent
