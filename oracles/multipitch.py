"""Reference model of mir_eval.multipitch (A.5): exact rational MIDI numbers, brute-force matching."""
from fractions import Fraction as F

from oracles.matching import kuhn


def tp(ref, est, window, chroma=False):
    """ref, est: lists of Fractions (MIDI numbers).  Max matching size with |d| <= window (circular mod 12 if chroma)."""
    def ok(a, b):
        d = abs(a - b)
        if chroma:
            d = d % 12
            d = min(d, 12 - d)
        return d <= window
    adj = [[j for j, b in enumerate(est) if ok(a, b)] for a in ref]
    return kuhn(adj, len(ref))


def near_threshold(ref, est, window, eps=F(1, 10 ** 6)):
    for a in ref:
        for b in est:
            d = abs(a - b)
            for dd in (d, min(d % 12, 12 - d % 12)):
                if abs(dd - window) < eps:
                    return True
    return False


def scores(ref_frames, est_frames, window):
    """-> dict with the 14 numbers as Fractions (zeros when a denominator is 0, as documented)."""
    out = {}
    for chroma, pre in ((False, ""), (True, "chroma_")):
        TP = [tp(r, e, window, chroma) for r, e in zip(ref_frames, est_frames)]
        nr = [len(r) for r in ref_frames]
        ne = [len(e) for e in est_frames]
        s_tp, s_r, s_e = sum(TP), sum(nr), sum(ne)
        out[pre + "precision"] = F(s_tp, s_e) if s_e else F(0)
        out[pre + "recall"] = F(s_tp, s_r) if s_r else F(0)
        den = sum(a + b - t for a, b, t in zip(ne, nr, TP))
        out[pre + "accuracy"] = F(s_tp, den) if den else F(0)
        if s_r:
            out[pre + "e_sub"] = F(sum(min(a, b) - t for a, b, t in zip(nr, ne, TP)), s_r)
            out[pre + "e_miss"] = F(sum(max(a - b, 0) for a, b in zip(nr, ne)), s_r)
            out[pre + "e_fa"] = F(sum(max(b - a, 0) for a, b in zip(nr, ne)), s_r)
            out[pre + "e_tot"] = F(sum(max(a, b) - t for a, b, t in zip(nr, ne, TP)), s_r)
        else:
            out[pre + "e_sub"] = out[pre + "e_miss"] = out[pre + "e_fa"] = out[pre + "e_tot"] = F(0)
        out[pre + "tp"] = TP
    return out


ORDER = ["precision", "recall", "accuracy", "e_sub", "e_miss", "e_fa", "e_tot"]
KEYS = ORDER + ["chroma_" + k for k in ORDER]


def resample_candidates(est_times, ref_times):
    """For each reference time the set of admissible estimate frame indices (nearest; both on a tie), or None
    when the time lies outside [est_t[0], est_t[-1]] (empty frame)."""
    out = []
    for t in ref_times:
        if not est_times or t < est_times[0] or t > est_times[-1]:
            out.append(None)
            continue
        d = [abs(F(t) - F(e)) for e in est_times]
        m = min(d)
        out.append([i for i, x in enumerate(d) if x == m])
    return out
