"""Independent maximum-bipartite-matching oracles (no mir_eval, no numpy).

* kuhn(adj, n_left): size of a maximum matching by augmenting paths.
* hall_size(rows, n_right): size by the Koenig/Hall deficiency formula
  max matching = min over S subset of U of |U| - |S| + |N(S)|  (small graphs).
* check_matching(...): validity predicate of a returned matching.
"""
import sys

sys.setrecursionlimit(10000)

POP = [bin(i).count("1") for i in range(1 << 12)]


def kuhn(adj, n_left):
    match_r = {}

    def aug(u, seen):
        for v in adj[u]:
            if v in seen:
                continue
            seen.add(v)
            if v not in match_r or aug(match_r[v], seen):
                match_r[v] = u
                return True
        return False

    return sum(1 for u in range(n_left) if aug(u, set()))


def hall_size(rows):
    """rows: list of bitmasks (neighbours of each left vertex)."""
    n = len(rows)
    best = n
    # N(S) built incrementally over subsets in Gray-free order
    nb = [0] * (1 << n)
    for s in range(1, 1 << n):
        low = s & -s
        i = low.bit_length() - 1
        nb[s] = nb[s ^ low] | rows[i]
        val = n - POP[s] + POP[nb[s]]
        if val < best:
            best = val
    return best


def greedy_size(order, adj):
    """First-fit greedy in the given left-vertex order (what a naive matcher does)."""
    used = set()
    c = 0
    for u in order:
        for v in adj[u]:
            if v not in used:
                used.add(v)
                c += 1
                break
    return c
