"""Independent recursive-descent parser and encoder for Harte chord labels
(no regular expressions, no mir_eval, no numpy).

Grammar (Harte 2010, as documented for mir_eval.chord):
    label  := "N" | "X" | root [ ":" shorthand [ "(" degs ")" ] | ":(" degs ")" ] [ "/" degree ]
    root   := [A-G] ( "b"* | "#"* )
    degs   := ["*"] degree { "," ["*"] degree }
    degree := ( "b"* | "#"* ) ( 1..13 )
"""
SHORTHANDS = ["maj", "min", "dim", "aug", "1", "5", "sus2", "sus4", "maj6", "min6", "7", "maj7", "min7", "dim7",
              "hdim7", "minmaj7", "aug7", "9", "maj9", "min9", "11", "maj11", "min11", "13", "maj13", "min13"]
NATURAL = {"C": 0, "D": 2, "E": 4, "F": 5, "G": 7, "A": 9, "B": 11}
DEGREE = {1: 0, 2: 2, 3: 4, 4: 5, 5: 7, 6: 9, 7: 11, 8: 12, 9: 14, 10: 16, 11: 17, 12: 19, 13: 21}
# quality shorthands as degree lists (documented qualities; extended ones encode as their seventh chord)
QUALITY = {"maj": "1 3 5", "min": "1 b3 5", "aug": "1 3 #5", "dim": "1 b3 b5", "sus4": "1 4 5", "sus2": "1 2 5",
           "7": "1 3 5 b7", "maj7": "1 3 5 7", "min7": "1 b3 5 b7", "minmaj7": "1 b3 5 7", "maj6": "1 3 5 6",
           "min6": "1 b3 5 6", "dim7": "1 b3 b5 bb7", "hdim7": "1 b3 b5 b7", "maj9": "1 3 5 7", "min9": "1 b3 5 b7",
           "9": "1 3 5 b7", "min11": "1 b3 5 b7", "11": "1 3 5 b7", "maj13": "1 3 5 7", "min13": "1 b3 5 b7",
           "13": "1 3 5 b7", "1": "1", "5": "1 5", "": ""}
# extended-chord reduction: shorthand -> (seventh-chord shorthand, added degrees)
REDUCE = {"minmaj7": ("min", ["7"]), "maj9": ("maj7", ["9"]), "min9": ("min7", ["9"]), "9": ("7", ["9"]),
          "11": ("7", ["9", "11"]), "13": ("7", ["9", "11", "13"]), "min11": ("min7", ["9", "11"]),
          "maj13": ("maj7", ["9", "11", "13"]), "min13": ("min7", ["9", "11", "13"])}


class Reject(Exception):
    pass


def _acc(s, i):
    j = i
    while j < len(s) and s[j] == "b":
        j += 1
    if j > i:
        return -(j - i), j
    while j < len(s) and s[j] == "#":
        j += 1
    return j - i, j


def _num(s, i):
    if i + 1 < len(s) and s[i] == "1" and s[i + 1] in "0123":
        return int(s[i:i + 2]), i + 2
    if i < len(s) and s[i] in "123456789":
        return int(s[i]), i + 1
    raise Reject()


def _degree(s, i, star_ok):
    star = False
    if star_ok and i < len(s) and s[i] == "*":
        star = True
        i += 1
    a, i = _acc(s, i)
    n, i = _num(s, i)
    return (star, a, n), i


def parse(s):
    """-> "N" | "X" | dict(root, short, degs, bass); raises Reject."""
    if s in ("N", "X"):
        return s
    if not s or s[0] not in NATURAL:
        raise Reject()
    a, i = _acc(s, 1)
    root = (NATURAL[s[0]] + a) % 12
    short = None
    degs = None
    if i < len(s) and s[i] == ":":
        i += 1
        j = i
        while j < len(s) and s[j] not in "(/":
            j += 1
        tok = s[i:j]
        if tok:
            if tok not in SHORTHANDS:
                raise Reject()
            short = tok
        i = j
        if i < len(s) and s[i] == "(":
            i += 1
            degs = []
            while True:
                d, i = _degree(s, i, True)
                degs.append(d)
                if i < len(s) and s[i] == ",":
                    i += 1
                    continue
                break
            if not (i < len(s) and s[i] == ")"):
                raise Reject()
            i += 1
        if short is None and degs is None:
            raise Reject()
    bass = None
    if i < len(s) and s[i] == "/":
        bass, i = _degree(s, i + 1, False)
    if i != len(s):
        raise Reject()
    return {"root": root, "short": short, "degs": degs, "bass": bass}


def accepts(s):
    try:
        parse(s)
        return True
    except Reject:
        return False


def _tok(tok):
    a = tok.count("#") - tok.count("b")
    return a, int(tok.strip("b#"))


def encode(p, reduce=False, strict=False):
    """-> (root, bitmap list, bass, ambiguous) or raises Reject when the label is not encodable.
    ambiguous: some semitone is both added and omitted (the documentation does not say which wins)."""
    if p == "N":
        return -1, [0] * 12, -1, False
    if p == "X":
        return -1, [-1] * 12, -1, False
    short = p["short"]
    degs = set(p["degs"] or [])
    # (an omission without a shorthand, e.g. "C:(*3)", is grammatical; mir_eval's split() has a guard meant to
    #  reject it that can never fire -- observation only, the property does not demand rejection)
    q = short if short is not None else ("" if degs else "maj")
    if reduce and q in REDUCE:
        q, extra = REDUCE[q]
        for e in extra:
            a, n = _tok(e)
            degs.add((False, a, n))
    if q not in QUALITY:
        raise Reject()            # aug7, maj11: grammatical but without a documented encoding
    cnt = [0] * 12
    for t in QUALITY[q].split():
        a, n = _tok(t)
        cnt[(DEGREE[n] + a) % 12] = 1
    cnt[0] = 1
    plus, minus = set(), set()
    for st, a, n in degs:
        semi = DEGREE[n] + a
        if semi < 12 or reduce:
            (minus if st else plus).add(semi % 12)
            cnt[semi % 12] += -1 if st else 1
    bm = [1 if c > 0 else 0 for c in cnt]
    b = p["bass"]
    bn = 0 if b is None else (DEGREE[b[2]] + b[1]) % 12
    if strict and not bm[bn]:
        raise Reject()
    bm[bn] = 1
    return p["root"], bm, bn, bool(plus & minus)


# ------------------------------------------------------------------ enumeration of the grammar

def enum_labels(tier, shard=0, nshards=1):
    if tier == "quick":
        roots = ["C", "F#", "Gb", "B##"]
        accs = ["", "b", "#", "bb"]
        pair_a = ["3", "*5", "b7", "#9", "*1"]
        pair_b = ["5", "*3", "11", "b13", "*b7", "1"]
        triples = []
    else:
        roots = [r + a for r in "CDEFGAB" for a in ["", "b", "#", "bb", "##"]]
        accs = ["", "b", "#", "bb", "##", "bbb"]
        pair_a = ["3", "*5", "b7", "#9", "*1", "b3", "*3", "9", "#11", "13", "*b7", "2"]
        pair_b = ["5", "*3", "11", "b13", "*b7", "1", "3", "*9", "b9", "*1", "7", "#5"]
        t = ["3", "*5", "b7", "9", "*3", "#11"]
        triples = [[a, b, c] for a in t for b in t for c in t]
    singles = [a + str(n) for a in accs for n in range(1, 14)]
    singles = singles + ["*" + d for d in singles]
    dls = [None] + [[d] for d in singles] + [[a, b] for a in pair_a for b in pair_b] + triples
    basses = [None, "1", "3", "b3", "5", "b7", "7", "9", "#4", "13", "b1"]
    k = 0
    for r in roots:
        for sh in [None] + SHORTHANDS:
            for dl in dls:
                k += 1
                if k % nshards != shard:
                    continue
                for b in basses:
                    s = r
                    if sh is not None or dl is not None:
                        s += ":" + (sh or "")
                    if dl is not None:
                        s += "(" + ",".join(dl) + ")"
                    if b is not None:
                        s += "/" + b
                    yield s
