"""Reference models: boundaries (A.2), notes (A.4), tempo, key, alignment (A.7).  Pure Python."""
import itertools
import math
import statistics
from fractions import Fraction as F

from oracles.matching import kuhn


def fbeta(p, r, beta=1.0):
    if p == 0 and r == 0:
        return 0.0
    return (1 + beta ** 2) * p * r / (beta ** 2 * p + r)


# ---------------------------------------------------------------- events / boundaries

def prf_events(ref, est, window, beta=1.0):
    """-> (P, R, F) from a maximum matching with |r-e| <= window; zeros if a side is empty."""
    if not ref or not est:
        return 0.0, 0.0, 0.0
    adj = [[j for j, e in enumerate(est) if abs(F(r) - F(e)) <= F(window)] for r in ref]
    m = kuhn(adj, len(ref))
    p, r = m / len(est), m / len(ref)
    return p, r, fbeta(p, r, beta)


def boundaries(intervals, trim):
    b = sorted({round(x, 5) for iv in intervals for x in iv})
    return b[1:-1] if trim else b


def deviation(ref_b, est_b):
    """-> (ref-to-est, est-to-ref) medians of nearest distances; (nan, nan) if a side is empty."""
    if not ref_b or not est_b:
        return float("nan"), float("nan")
    e2r = statistics.median([min(abs(e - r) for r in ref_b) for e in est_b])
    r2e = statistics.median([min(abs(e - r) for e in est_b) for r in ref_b])
    return r2e, e2r


# ---------------------------------------------------------------- notes

def all_max_matchings(feas, nr, ne):
    """All maximum matchings (as frozensets of (i, j)) of a small feasibility matrix."""
    adj = [[j for j in range(ne) if feas[i][j]] for i in range(nr)]
    best = kuhn(adj, nr)
    out = set()

    def rec(i, used, cur):
        if len(cur) + (nr - i) < best:
            return
        if i == nr:
            if len(cur) == best:
                out.add(frozenset(cur))
            return
        rec(i + 1, used, cur)
        for j in adj[i]:
            if j not in used:
                rec(i + 1, used | {j}, cur + [(i, j)])
    rec(0, frozenset(), [])
    return best, out


def overlap_ratio(r, e):
    return (min(r[1], e[1]) - max(r[0], e[0])) / (max(r[1], e[1]) - min(r[0], e[0]))


# ---------------------------------------------------------------- tempo / key / alignment

def tempo_detection(ref, weight, est, tol):
    hits = []
    for r in ref:
        if r > 0:
            hits.append(min(abs(F(r) - F(e)) / F(r) for e in est) <= F(tol))
        else:
            hits.append(False)
    p = weight * hits[0] + (1.0 - weight) * hits[1]
    return p, (hits[0] or hits[1]), (hits[0] and hits[1])


TONIC = {"c": 0, "c#": 1, "db": 1, "d": 2, "d#": 3, "eb": 3, "e": 4, "f": 5, "f#": 6, "gb": 6, "g": 7, "g#": 8, "ab": 8,
         "a": 9, "a#": 10, "bb": 10, "b": 11}


def key_score(ref, est):
    """MIREX key relationship table."""
    def split(k):
        if k.lower() == "x":
            return None, None
        t, m = k.split()
        return TONIC[t.lower()], m
    rk, rm = split(ref)
    ek, em = split(est)
    if rk == ek and rm == em:
        return 1.0
    if rk is None or ek is None:
        return 0.0
    if rm == em and (ek - rk) % 12 == 7:
        return 0.5
    if rm == "major" and em != rm and (ek - rk) % 12 == 9:
        return 0.3
    if rm == "minor" and em != rm and (ek - rk) % 12 == 3:
        return 0.3
    if rm != em and rk == ek:
        return 0.2
    return 0.0


def alignment(ref, est, window, duration):
    dev = [abs(F(r) - F(e)) for r, e in zip(ref, est)]
    n = len(dev)
    sd = sorted(dev)
    median = float(sd[n // 2] if n % 2 else (sd[n // 2 - 1] + sd[n // 2]) / 2)
    mean = float(sum(dev) / n)
    pc = sum(1 for d in dev if d <= F(window)) / n
    if duration is not None:
        rs, re_ = [0.0] + list(ref), list(ref) + [duration]
        es, ee = [0.0] + list(est), list(est) + [duration]
        total = F(duration)
    else:
        rs, re_, es, ee = ref[:-1], ref[1:], est[:-1], est[1:]
        total = F(ref[-1]) - F(ref[0])
    ov = sum(max(min(F(a), F(b)) - max(F(c), F(d)), 0) for a, b, c, d in zip(re_, ee, rs, es))
    pcs = float(ov / total) if total > 0 else None
    return median, mean, pc, pcs
