"""Textbook clustering indices on two frame-label sequences (pure Python; fractions/math only)."""
import math
from collections import Counter
from fractions import Fraction as F

NAN = float("nan")


def dec(x):
    """A float parameter read as the decimal the user typed (0.1 -> 1/10); dyadic values are unchanged."""
    return F(repr(float(x)))


def n_frames(T, fs):
    return int(math.floor(F(T) / dec(fs)))


def frame_labels(iv, labs, fs, fold=True):
    """Frame k sits at time k*fs, k < floor(T/fs); its label is that of the closed interval containing it,
    the later interval on a shared boundary; labels compared case-insensitively."""
    T = max(e for _, e in iv)
    out = []
    for k in range(n_frames(T, fs)):
        t = k * dec(fs)
        lab = None
        for (s, e), l in zip(iv, labs):
            if F(s) <= t <= F(e):
                lab = l
        out.append(None if lab is None else (str(lab).lower() if fold else str(lab)))
    return out


def comb2(n):
    return n * (n - 1) // 2


def H2(cnts):
    t = sum(cnts)
    return -sum(v / t * math.log2(v / t) for v in cnts if v)


def indices(a, b):
    """All indices of C16 for frame-label sequences a (reference) and b (estimate).
    Undefined quantities (0/0) are returned as None."""
    n = len(a)
    c = Counter(zip(a, b))
    ra, rb = Counter(a), Counter(b)
    res = {}
    same_a = sum(comb2(v) for v in ra.values())
    same_b = sum(comb2(v) for v in rb.values())
    both = sum(comb2(v) for v in c.values())
    tot = comb2(n)
    res["pw_p"] = both / same_b if same_b else None
    res["pw_r"] = both / same_a if same_a else None
    res["rand"] = (both + (tot - same_a - same_b + both)) / tot if tot else None
    if (len(ra) == len(rb) == 1) or (len(ra) == len(rb) == n) or n == 0:
        res["ari"] = 1.0
    else:
        exp = F(same_a * same_b, tot)
        mx = F(same_a + same_b, 2)
        res["ari"] = float((both - exp) / (mx - exp)) if mx != exp else None
    mi = sum(v / n * math.log(v * n / (ra[i] * rb[j])) for (i, j), v in c.items())
    res["mi"] = mi
    ha = -sum(v / n * math.log(v / n) for v in ra.values())
    hb = -sum(v / n * math.log(v / n) for v in rb.values())
    res["h_ref"], res["h_est"] = ha, hb
    res["nmi"] = 1.0 if len(ra) == len(rb) == 1 else mi / max(math.sqrt(ha * hb), 1e-10)
    if len(ra) == len(rb) == 1:
        res["ami"] = 1.0
    else:
        emi = 0.0
        for ai in ra.values():
            for bj in rb.values():
                for nij in range(max(1, ai + bj - n), min(ai, bj) + 1):
                    p = F(math.comb(bj, nij) * math.comb(n - bj, ai - nij), math.comb(n, ai))
                    emi += nij / n * math.log(n * nij / (ai * bj)) * float(p)
        den = max(ha, hb) - emi
        res["ami"] = (mi - emi) / den if abs(den) > 1e-12 else None
    h_a_given_b = sum(rb[j] / n * H2([c[(i, j)] for i in ra]) for j in rb)
    h_b_given_a = sum(ra[i] / n * H2([c[(i, j)] for j in rb]) for i in ra)
    for marg in (False, True):
        za = H2(list(ra.values())) if marg else math.log2(len(ra))
        zb = H2(list(rb.values())) if marg else math.log2(len(rb))
        under = 1 - h_a_given_b / za if za > 0 else 0.0
        over = 1 - h_b_given_a / zb if zb > 0 else 0.0
        res["nce", marg] = (over, under)
    return res


def emi_recurrence(ra, rb, n):
    """Expected mutual information under the hypergeometric model, computed WITHOUT factorials: for each pair of marginals
    the weights w(k) ~ P(n_ij = k) follow w(k+1)/w(k) = (a-k)(b-k) / ((k+1)(n-a-b+k+1)); start at the mode with weight 1,
    walk both ways until the weights vanish, normalise by their sum.  Cost is O(width of the distribution), so it also
    works for hundreds of thousands of frames."""
    emi = 0.0
    for a in ra:
        for b in rb:
            lo, hi = max(0, a + b - n), min(a, b)
            mode = min(hi, max(lo, ((a + 1) * (b + 1)) // (n + 2)))
            ws = {mode: 1.0}
            w, k = 1.0, mode
            while k < hi and w > 1e-300:
                w *= (a - k) * (b - k) / ((k + 1) * (n - a - b + k + 1))
                k += 1
                ws[k] = w
            w, k = 1.0, mode
            while k > lo and w > 1e-300:
                w *= k * (n - a - b + k) / ((a - k + 1) * (b - k + 1))
                k -= 1
                ws[k] = w
            tot = math.fsum(ws.values())
            emi += math.fsum(k / n * math.log(n * k / (a * b)) * (w / tot) for k, w in ws.items() if k > 0)
    return emi


def indices_from_counts(c):
    """ARI / MI / AMI / NMI / NCE from a contingency table given as {(i, j): count} (counts may be huge)."""
    ra, rb = Counter(), Counter()
    for (i, j), v in c.items():
        ra[i] += v
        rb[j] += v
    n = sum(c.values())
    res = {"n": n, "k_ref": len(ra), "k_est": len(rb)}
    same_a = sum(comb2(v) for v in ra.values())
    same_b = sum(comb2(v) for v in rb.values())
    both = sum(comb2(v) for v in c.values())
    tot = comb2(n)
    res["pw_p"] = both / same_b if same_b else None
    res["pw_r"] = both / same_a if same_a else None
    res["rand"] = (both + (tot - same_a - same_b + both)) / tot if tot else None
    if (len(ra) == len(rb) == 1) or (len(ra) == len(rb) == n):
        res["ari"] = 1.0
    else:
        exp = F(same_a * same_b, tot)
        mx = F(same_a + same_b, 2)
        res["ari"] = float((both - exp) / (mx - exp)) if mx != exp else None
    mi = math.fsum(v / n * math.log(F(v * n, ra[i] * rb[j])) for (i, j), v in c.items() if v)
    res["mi"] = mi
    ha = -math.fsum(v / n * math.log(v / n) for v in ra.values())
    hb = -math.fsum(v / n * math.log(v / n) for v in rb.values())
    res["h_ref"], res["h_est"] = ha, hb
    res["nmi"] = 1.0 if len(ra) == len(rb) == 1 else mi / max(math.sqrt(ha * hb), 1e-10)
    if len(ra) == len(rb) == 1:
        res["ami"] = 1.0
    else:
        emi = emi_recurrence(list(ra.values()), list(rb.values()), n)
        den = max(ha, hb) - emi
        res["ami"] = (mi - emi) / den if abs(den) > 1e-9 else None
    h_a_given_b = sum(rb[j] / n * H2([c.get((i, j), 0) for i in ra]) for j in rb)
    h_b_given_a = sum(ra[i] / n * H2([c.get((i, j), 0) for j in rb]) for i in ra)
    for marg in (False, True):
        za = H2(list(ra.values())) if marg else math.log2(len(ra))
        zb = H2(list(rb.values())) if marg else math.log2(len(rb))
        under = 1 - h_a_given_b / za if za > 0 else 0.0
        over = 1 - h_b_given_a / zb if zb > 0 else 0.0
        res["nce", marg] = (over, under)
    return res


def fbeta(p, r, beta):
    if p == 0 and r == 0:
        return 0.0
    return (1 + beta ** 2) * p * r / (beta ** 2 * p + r)
