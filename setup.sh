#!/bin/bash
# Offline setup: make sure hypothesis is importable from /venv (it normally is).
set -e
cd "$(dirname "$0")"
PY=/venv/bin/python
if ! "$PY" -c "import hypothesis" >/dev/null 2>&1; then
  PIP_NO_INDEX=1 "$PY" -m pip install --no-index --find-links /opt/veriftools/wheels hypothesis
fi
"$PY" -c "import hypothesis, numpy, scipy; print('hypothesis', hypothesis.__version__)"
# atheris (coverage-guided campaign of the C10 thorough tier) goes next to the checks; optional: the campaign is skipped if it is missing
if [ ! -d .deps/atheris ]; then PIP_NO_INDEX=1 "$PY" -m pip install --no-index --find-links /opt/veriftools/wheels --target .deps atheris -q || true; fi
mkdir -p evidence replays/out
