"""Multipitch strategies: frames of MIDI numbers given as decimal strings-free rationals (num/100) so that the
oracle is exact; Hz values handed to mir_eval are 440*2**((m-69)/12)."""
from hypothesis import strategies as st

# semitone offsets (in 1/100 semitone) chosen so that no distance (also modulo 12) equals a window in WINDOWS
OFFSETS = [0, 0, 0, 10, -10, 20, 40, -40, 45, -45, 55, -55, 60, 90, 110, 1190, 1200, -1200, 1210, 1245, 1255, 2400]
WINDOWS = [0.5, 0.5, 0.25, 0.75, 0.3]


def midi_to_hz(m100):
    return 440.0 * 2.0 ** ((m100 / 100.0 - 69.0) / 12.0)


@st.composite
def frame(draw, lo=30, hi=100, max_k=4):
    k = draw(st.integers(0, max_k))
    ms = draw(st.lists(st.integers(lo, hi), min_size=k, max_size=k, unique=True))
    return [100 * m for m in ms]


@st.composite
def derived_frame(draw, ref, lo=30, hi=100):
    out = []
    for m in ref:
        a = draw(st.sampled_from(["keep", "off", "off", "drop", "cluster"]))
        if a == "drop":
            continue
        if a == "cluster":
            # several estimates inside the tolerance window of ONE reference pitch (only one of them may count as a hit)
            for off in draw(st.lists(st.sampled_from([0, 10, -10, 20, -20, 40, -40, 45, -45]), min_size=2, max_size=3, unique=True)):
                out.append(m + off)
            continue
        v = m if a == "keep" else m + draw(st.sampled_from(OFFSETS))
        if 17 * 100 <= v <= 110 * 100:
            out.append(v)
    for _ in range(draw(st.integers(0, 2))):
        out.append(100 * draw(st.integers(lo, hi)) + draw(st.sampled_from(OFFSETS[:12])))
    return list(dict.fromkeys(out))


@st.composite
def multipitch_pair(draw, max_frames=8, same_timebase=None):
    n = draw(st.integers(0, max_frames))
    hop = draw(st.sampled_from([0.25, 0.5, 0.125]))
    t0 = draw(st.sampled_from([0.0, 0.0, 0.25, 1.0]))
    rt = [t0 + i * hop for i in range(n)]
    rf = [draw(frame()) for _ in range(n)]
    same = draw(st.booleans()) if same_timebase is None else same_timebase
    if same:
        et = list(rt)
        ef = [draw(derived_frame(f)) if draw(st.integers(0, 4)) else draw(frame()) for f in rf]
    else:
        if n >= 1 and draw(st.integers(0, 3)) == 0:
            # the same frames, stamped slightly early or late (less than half a hop): frame i is still nearest to frame i, but the
            # reference time that falls outside the estimate's range must get an empty frame
            m, ehop = n, hop
            e0 = t0 + draw(st.sampled_from([0.0625, 0.125] + ([-0.0625, -0.125] if t0 >= 0.25 else [])))
        else:
            m = draw(st.integers(0, max_frames))
            ehop = draw(st.sampled_from([0.25, 0.125, 0.375, 0.5]))
            e0 = draw(st.sampled_from([0.0, 0.125, 0.5, 0.25, 1.5]))
        et = [e0 + i * ehop for i in range(m)]
        ef = []
        for i in range(m):
            # derive from the reference frame nearest in time when there is one
            if rf and draw(st.integers(0, 3)):
                j = min(range(n), key=lambda k: abs(rt[k] - et[i]))
                ef.append(draw(derived_frame(rf[j])))
            else:
                ef.append(draw(frame()))
    return {"ref_time": rt, "ref_freqs": rf, "est_time": et, "est_freqs": ef, "window": draw(st.sampled_from(WINDOWS))}
