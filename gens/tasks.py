"""Per-task input strategies (plain-data cases) shared by several properties."""
from hypothesis import strategies as st

from gens import base as g

# ------------------------------------------------------------------ beats (lattice 1/64 s, >= 5 s as after trimming)


@st.composite
def beat_seq(draw, q=64, lo=5.0, hi=30.0, max_n=14, min_n=0):
    mode = draw(st.sampled_from(["uniform", "regular", "regular", "regular"]))
    n = draw(st.integers(min_n, max_n))
    if n == 0:
        return []
    if mode == "uniform":
        xs = draw(st.lists(st.integers(int(lo * q), int(hi * q)), min_size=n, max_size=n, unique=True))
        return sorted(k / q for k in xs)
    period = draw(st.sampled_from([0.5, 0.75, 1.0, 0.375]))
    jit = draw(st.sampled_from([0, 0, 1, 2]))
    t0 = lo + draw(st.integers(0, 2 * q)) / q
    out = []
    for i in range(n):
        j = draw(st.integers(-jit, jit)) if jit else 0
        out.append(t0 + i * period + j / q)
    return sorted(set(x for x in out if lo <= x <= hi + 20))


@st.composite
def derived_beats(draw, ref, q=64, lo=5.0):
    how = draw(st.sampled_from(["same", "jitter", "jitter", "half", "offbeat", "double", "shift", "shift"]))     # "shift": a tracker with a constant bias
    est = list(ref)
    mids = [(a + b) / 2 for a, b in zip(ref[:-1], ref[1:])]
    if how == "jitter":
        est = [x + draw(st.integers(-6, 6)) / q for x in est]
    elif how == "half":
        est = est[draw(st.integers(0, 1))::2]
    elif how == "offbeat":
        est = mids
    elif how == "double":
        est = sorted(est + mids)
    elif how == "shift":
        s = draw(st.integers(-8, 8)) / q
        est = [x + s for x in est]
    if est and draw(st.integers(0, 3)) == 0:
        i = draw(st.integers(0, len(est) - 1))
        est = est[:i] + est[i + 1:]
    if est and draw(st.integers(0, 4)) == 0:
        est = est + [est[-1] + draw(st.sampled_from([0.25, 0.3125, 0.5]))]
    if mids and draw(st.integers(0, 3)) == 0:
        # one extra beat exactly midway between two annotations (the half-open window boundary of Goto)
        est = est + [mids[draw(st.integers(0, len(mids) - 1))]]
    return sorted(set(max(lo, x) for x in est))


@st.composite
def beat_pair(draw, max_n=14):
    ref = draw(beat_seq(max_n=max_n))
    if len(ref) >= 2 and draw(st.integers(0, 3)):
        est = draw(derived_beats(ref))
    else:
        est = draw(beat_seq(max_n=max_n))
    return {"ref": ref, "est": est}


# ------------------------------------------------------------------ notes (onset lattice 1/16 s, cent lattice)

@st.composite
def notes(draw, max_n=7, min_n=0):
    n = draw(st.integers(min_n, max_n))
    out = []
    for _ in range(n):
        on = draw(st.integers(0, 64)) / 16
        # short notes matter: only for them does the offset floor (offset_min_tolerance) beat offset_ratio * duration
        dur = draw(st.one_of(st.integers(1, 6), st.integers(1, 32))) / 16
        out.append([on, on + dur, draw(g.pitch_hz()), draw(st.integers(0, 127))])
    return sorted(out)


@st.composite
def derived_notes(draw, ref):
    out = []
    for on, off, p, v in ref:
        a = draw(st.sampled_from(["keep", "keep", "edit", "edit", "drop", "dup"]))
        if a == "drop":
            continue
        if a in ("keep", "dup"):
            out.append([on, off, p, v])
            if a == "dup":
                out.append([on, off, p, v])
            continue
        on2 = max(0.0, on + draw(st.sampled_from([0, 0, 1, -1, 2, -2, 4])) / 16)
        off2 = max(on2 + 1 / 16, off + draw(st.sampled_from([0, 0, 1, -1, 2, 4, -4, 8])) / 16)
        p2 = p * 2.0 ** (draw(st.sampled_from([0, 0, 10, 40, 49, 51, -49, -51, 99, 101, 1200])) / 1200.0)
        v2 = min(127, max(0, v + draw(st.sampled_from([0, 0, 5, -5, 20, -40]))))
        out.append([on2, off2, p2, v2])
    return out


@st.composite
def notes_case(draw, max_n=7):
    ref = draw(notes(max_n=max_n))
    est = draw(derived_notes(ref)) if ref and draw(st.integers(0, 2)) else draw(notes(max_n=max_n))
    return {"ref": ref, "est": est,
            "onset_tolerance": draw(st.sampled_from([1 / 16, 1 / 8, 0.05, 0.1, 0.25])),
            "pitch_tolerance": draw(st.sampled_from([50.0, 25.0, 100.0])),
            "offset_ratio": draw(st.sampled_from([None, 0.2, 0.5, 0.25])),
            "offset_min_tolerance": draw(st.sampled_from([0.05, 1 / 16, 1 / 8])),
            "strict": draw(st.booleans()),
            "beta": draw(st.sampled_from([1.0, 1.0, 0.5, 2.0])),
            "velocity_tolerance": draw(st.sampled_from([0.1, 0.05, 0.3])),
            "rperm": draw(st.permutations(list(range(len(ref))))), "eperm": draw(st.permutations(list(range(len(est)))))}


# ------------------------------------------------------------------ melody

MEL_F = [0.0, 0.0, 110.0, 220.0, 223.0, 440.0, 100.0, 330.0, 113.5, 226.5, 880.0, 220.0 * 2 ** (60 / 1200.0), 220.0 * 2 ** (40 / 1200.0)]


@st.composite
def melody_case(draw, max_n=10, allow_params=True):
    n = draw(st.integers(2, max_n))
    m = draw(st.integers(2, max_n))
    rhop = draw(st.sampled_from([0.25, 0.5]))
    rstart = draw(st.sampled_from([0.0, 0.0, 0.25]))
    same = draw(st.booleans())
    if same:
        ehop, estart, m = rhop, rstart, draw(st.sampled_from([n, n, n, max(2, n - 1), n + 1]))
    else:
        ehop = draw(st.sampled_from([0.25, 0.5, 0.125, 0.375]))
        estart = draw(st.sampled_from([0.0, 0.0, 0.25, 0.125]))
    rt = [rstart + k * rhop for k in range(n)]
    et = [estart + k * ehop for k in range(m)]
    rf = [draw(st.sampled_from(MEL_F)) for _ in range(n)]
    ef = []
    for k in range(m):
        f = draw(st.sampled_from(MEL_F))
        if same and k < n and draw(st.integers(0, 2)):
            f = rf[k] * draw(st.sampled_from([1.0, 1.0, 2.0, 0.5, 2 ** (30 / 1200.0), 2 ** (70 / 1200.0), -1.0]))
        elif draw(st.integers(0, 4)) == 0:
            f = -f
        ef.append(f)
    kw = {}
    if allow_params:
        if draw(st.integers(0, 3)) == 0:
            kw["est_voicing"] = [draw(st.sampled_from([0.0, 0.5, 1.0, 1.0])) for _ in range(m)]
        if draw(st.integers(0, 3)) == 0:
            kw["ref_reward"] = [draw(st.sampled_from([0.0, 0.5, 1.0, 1.0])) for _ in range(n)]
        if draw(st.integers(0, 7)) == 0:
            # both confidences, heterogeneous and correlated: the estimator is unsure exactly where the annotator was
            rew = [draw(st.sampled_from([1.0, 1.0, 0.125, 0.0625, 0.5])) for _ in range(n)]
            kw["ref_reward"] = rew
            kw["est_voicing"] = [rew[k] if k < n else 1.0 for k in range(m)]
        if draw(st.integers(0, 3)) == 0:
            kw["hop"] = draw(st.sampled_from([0.125, 0.25, 0.375]))
        if draw(st.integers(0, 2)) == 0:
            kw["kind"] = draw(st.sampled_from(["zero", "nearest", "linear"]))
        if draw(st.integers(0, 3)) == 0:
            kw["cent_tolerance"] = draw(st.sampled_from([50, 25, 100, 35.5]))
    return {"ref_time": rt, "ref_freq": rf, "est_time": et, "est_freq": ef, "kw": kw}


# ------------------------------------------------------------------ patterns

@st.composite
def pattern_list(draw, max_p=4):
    P = []
    for _ in range(draw(st.integers(1, max_p))):
        k = draw(st.integers(1, 5))
        base = sorted(set((float(draw(st.integers(0, 12))), float(draw(st.integers(60, 66)))) for _ in range(k)))
        occs = [[list(nt) for nt in base]]
        for _ in range(draw(st.integers(0, 3))):
            dt = float(draw(st.integers(0, 16)))
            dp = float(draw(st.sampled_from([0, 0, 12, -5])))
            o = [[a + dt, b + dp] for a, b in base]
            if draw(st.booleans()) and len(o) > 1:
                o = o[:-1]
            if draw(st.integers(0, 3)) == 0:
                o = o + [[99.0, 60.0]]
            if draw(st.integers(0, 3)) == 0:
                # the same (onset, midi) pair listed twice inside one occurrence: valid (the MIREX fixtures contain such rows)
                o = o + [list(o[draw(st.integers(0, len(o) - 1))])]
            occs.append(o)
        if draw(st.integers(0, 5)) == 0:
            occs[0] = occs[0] + [list(occs[0][0])]
        P.append(occs)
    return P


@st.composite
def derived_patterns(draw, R):
    E = []
    for P in R:
        if draw(st.integers(0, 9)) < 7:
            Q = [[list(nt) for nt in o] for o in P if draw(st.integers(0, 4))] or [[list(nt) for nt in P[0]]]
            Q = [[nt for nt in o if draw(st.integers(0, 6))] or [o[0]] for o in Q]
            if draw(st.integers(0, 3)) == 0:
                dt = float(draw(st.integers(1, 8)))
                Q = [[[a + dt, b] for a, b in o] for o in Q]
            E.append(Q)
    if draw(st.booleans()) or not E:
        E += draw(pattern_list(max_p=2))
    return E


@st.composite
def pattern_case(draw):
    R = draw(pattern_list())
    E = draw(derived_patterns(R)) if draw(st.integers(0, 9)) < 7 else draw(pattern_list())
    return {"ref": R, "est": E, "n": draw(st.sampled_from([5, 1, 2, 3])), "thres": draw(st.sampled_from([0.75, 0.5, 0.6]))}


# ------------------------------------------------------------------ tempo / alignment

@st.composite
def tempo_case(draw):
    r0 = draw(st.sampled_from([60.0, 64.0, 100.0, 120.0, 128.0, 0.0, 90.0]))
    r1 = draw(st.sampled_from([120.0, 128.0, 200.0, 180.0, 60.0, 0.0, 240.0]))
    if r0 == 0 and r1 == 0:
        r1 = 120.0
    tol = draw(st.sampled_from([0.08, 0.0625, 0.125, 0.25, 0.0, 0.5, 1.0]))

    def est_for(r):
        if r == 0 or draw(st.integers(0, 3)) == 0:
            return draw(st.sampled_from([0.0, 50.0, 77.0, 130.0, 250.0]))
        k = draw(st.sampled_from([0, 0, 1, -1, 2, -2, 3, 4, -4, 8, 16, -16]))
        return max(0.0, r * (1 + k / 32.0))     # relative error k/32: exact, and equal to dyadic tolerances on purpose
    return {"ref": [r0, r1], "weight": draw(st.sampled_from([0.5, 0.0, 1.0, 0.25, 0.75])), "est": [est_for(r0), est_for(r1)], "tol": tol}


@st.composite
def alignment_case(draw, max_n=8):
    n = draw(st.integers(1, max_n))
    ref = sorted(draw(st.lists(st.integers(0, 20 * 16), min_size=n, max_size=n)))
    ref = [k / 16 for k in ref]
    est = sorted(max(0.0, r + draw(st.sampled_from([0, 0, 1, -1, 2, 4, -4, 5, 8, 16, -16])) / 16) for r in ref)
    dur = None
    if draw(st.booleans()):
        dur = max(ref[-1], est[-1]) + draw(st.sampled_from([0.0, 0.5, 2.0]))
        if dur <= 0:
            dur = 1.0
    return {"ref": ref, "est": est, "window": draw(st.sampled_from([0.3, 0.25, 0.0625, 0.5, 1.0])), "duration": dur}
