"""Task registry: for each of the 13 task modules a Hypothesis strategy producing a plain-data case
{"ref": ..., "est": ..., "kw": {...}} over valid inputs (degenerate shapes over-represented) and a builder turning
the case into the positional arguments of that task's evaluate()."""
import numpy as np
from hypothesis import strategies as st

from gens import base as g
from gens import pitch as gp
from gens import segments as gs
from gens import tasks as gt

import mir_eval


def _a(x, shape=None):
    a = np.asarray(x, dtype=float)
    return a.reshape(shape) if shape else a


def subset(draw, params):
    """Random subset of {name: strategy} drawn to {name: value}."""
    out = {}
    for k, s in params.items():
        if draw(st.integers(0, 2)) == 0:
            out[k] = draw(s)
    return out


# ---------------------------------------------------------------- event-like tasks

@st.composite
def events_shape(draw, lo, hi, q, max_n=10):
    """(ref, est) event lists with degenerate shapes over-represented."""
    shape = draw(st.sampled_from(["regular", "regular", "regular", "empty_ref", "empty_est", "both_empty", "single", "dups", "disjoint", "identical", "cluster"]))
    ev = g.event_list(q=q, lo=lo, hi=hi, max_n=max_n)
    if shape == "regular":
        ref, est = draw(g.event_pair(q=q, lo=lo, hi=hi, max_n=max_n))
    elif shape == "empty_ref":
        ref, est = [], draw(ev)
    elif shape == "empty_est":
        ref, est = draw(ev), []
    elif shape == "both_empty":
        ref, est = [], []
    elif shape == "single":
        ref = [draw(g.dyadic(lo, hi, q))]
        est = [draw(g.dyadic(lo, hi, q))] if draw(st.booleans()) else draw(ev)
    elif shape == "dups":
        base = draw(st.lists(g.dyadic(lo, hi, q), min_size=1, max_size=3))
        ref = sorted(base * draw(st.integers(1, 3)))
        est = sorted(draw(st.lists(st.sampled_from(base), min_size=1, max_size=5)) + draw(st.lists(g.dyadic(lo, hi, q), max_size=2)))
    elif shape == "disjoint":
        mid = (lo + hi) / 2
        ref = draw(g.event_list(q=q, lo=lo, hi=mid - 1, max_n=6, min_n=1))
        est = draw(g.event_list(q=q, lo=mid + 1, hi=hi, max_n=6, min_n=1))
    elif shape == "identical":
        ref = draw(g.event_list(q=q, lo=lo, hi=hi, max_n=max_n, min_n=1))
        est = list(ref)
    else:
        c = draw(g.dyadic(lo + 1, hi - 1, q))
        ref = sorted(c + draw(st.integers(-3, 3)) / q for _ in range(draw(st.integers(2, 5))))
        est = sorted(c + draw(st.integers(-3, 3)) / q for _ in range(draw(st.integers(1, 5))))
    return shape, ref, est


BEAT_KW = {"f_measure_threshold": st.sampled_from([0.07, 0.05, 0.1, 0.0625]), "cemgil_sigma": st.sampled_from([0.04, 0.02, 0.1]),
           "goto_threshold": st.sampled_from([0.35, 0.25, 0.5]), "goto_mu": st.sampled_from([0.2, 0.1, 0.05, 0.3]), "goto_sigma": st.sampled_from([0.2, 0.3, 0.05, 0.1]),
           "p_score_threshold": st.sampled_from([0.2, 0.1, 0.5]), "continuity_phase_threshold": st.sampled_from([0.175, 0.25]),
           "continuity_period_threshold": st.sampled_from([0.175, 0.1]), "bins": st.sampled_from([41, 21, 11, 40, 2, 4, 10, 3]),
           "min_beat_time": st.sampled_from([5.0, 0.0, 2.5])}


@st.composite
def beat_case(draw):
    if draw(st.booleans()):
        c = draw(gt.beat_pair())
        # some beats before the trim time so that trimming matters
        pre = draw(st.lists(st.integers(0, 5 * 64 - 1).map(lambda k: k / 64), max_size=3))
        shape, ref, est = "regular", sorted(pre + c["ref"]), sorted(draw(st.lists(st.sampled_from(pre), max_size=2)) + c["est"]) if pre else c["est"]
    else:
        shape, ref, est = draw(events_shape(0.0, 30.0, 64, max_n=12))
    return {"shape": shape, "ref": ref, "est": est, "kw": subset(draw, BEAT_KW)}


@st.composite
def onset_case(draw):
    shape, ref, est = draw(events_shape(0.0, 12.0, 16))
    return {"shape": shape, "ref": ref, "est": est, "kw": subset(draw, {"window": st.sampled_from([0.05, 0.025, 0.1, 0.0625, 0.5])})}


# ---------------------------------------------------------------- segment / chord / hierarchy

SEG_KW = {"frame_size": st.sampled_from([0.1, 0.25, 0.5, 0.125, 1.0]), "beta": st.sampled_from([1.0, 0.5, 2.0]), "trim": st.booleans(),
          "marginal": st.booleans()}


@st.composite
def est_span(draw, T, q, labels, allow_t0=True):
    """Estimate intervals whose span differs from [0, T]: starts earlier/later, ends earlier/later, boundary on the reference's start/end."""
    kind = draw(st.sampled_from(["same", "same", "longer", "shorter", "later_start", "end_on_ref_boundary", "starts_at_ref_end_minus"]))
    t0, t1 = 0.0, T
    if kind == "longer":
        t1 = T + draw(st.integers(1, 3 * q)) / q
    elif kind == "shorter" and T * q > 2:
        t1 = draw(st.integers(1, int(T * q) - 1)) / q
    elif kind == "later_start" and allow_t0 and T * q > 2:
        t0 = draw(st.integers(1, int(T * q) - 1)) / q
    elif kind == "end_on_ref_boundary":
        t1 = T + 1.0
    iv = draw(gs.partition(t1, q=q, t0=t0))
    if kind == "end_on_ref_boundary" and len(iv) >= 1:
        # force a boundary exactly on the reference end
        cut = T
        new = []
        for a, b in iv:
            if a < cut < b:
                new += [[a, cut], [cut, b]]
            else:
                new.append([a, b])
        iv = new
    labs = draw(st.lists(st.sampled_from(labels), min_size=len(iv), max_size=len(iv)))
    return kind, iv, labs


@st.composite
def segment_case(draw):
    q = 8
    T = draw(st.integers(2, 24)) / 2
    ref_iv, ref_lab = draw(gs.labeled_segmentation(T, q=q))
    shape = draw(st.sampled_from(["regular", "regular", "identical", "span", "span", "one_segment", "empty_est"]))
    if shape == "identical":
        est_iv, est_lab = [list(r) for r in ref_iv], list(ref_lab)
    elif shape == "span":
        kind, est_iv, est_lab = draw(est_span(T, q, gs.LABELS[:4]))
        shape = "span:" + kind
    elif shape == "one_segment":
        est_iv, est_lab = [[0.0, T]], ["x"]
    elif shape == "empty_est":
        est_iv, est_lab = [], []
    else:
        est_iv, est_lab = draw(gs.labeled_segmentation(T, q=q))
    return {"shape": shape, "ref": {"iv": ref_iv, "lab": ref_lab}, "est": {"iv": est_iv, "lab": est_lab}, "kw": subset(draw, SEG_KW)}


CHORD_LABELS = ["N", "C", "C:maj", "C:min", "G:7", "G:maj7", "A:min7", "F#:dim", "Db:aug", "E:sus4", "Bb:maj6", "D:9", "D:min9", "C:maj/3",
                "C:maj/5", "G:7/b7", "A:min/b3", "F:maj(9)", "F:(1,3,5)", "X", "B:hdim7", "C#:min", "Db:min", "E:5", "E:1", "C:maj(*3)",
                "A:13", "G:min11", "C:11",
                # extended shorthands WITH an explicit degree list (reduction merges table degrees and label degrees)
                "D:9(*3)", "A:13(*5)", "G:min11(*b3)", "D:9(11)", "C:maj9(*5)"]


@st.composite
def chord_case(draw):
    q = 8
    t0 = draw(st.sampled_from([0.0, 0.0, 0.5, 2.0]))
    T = t0 + draw(st.integers(2, 24)) / 2
    ref_iv = draw(gs.partition(T, q=q, t0=t0))
    pool = draw(st.sampled_from([CHORD_LABELS, CHORD_LABELS[:8], ["N", "X", "C:maj"], ["X"], ["N"], ["D:9", "D:7", "D:7(9)"],
                                  ["E:9", "E:9(13)", "C:maj9", "C:maj9(#11)", "A:min9", "A:min9(11)", "G:13", "G:13(#9)"]]))     # an extended shorthand and the same chord with one more degree
    ref_lab = draw(st.lists(st.sampled_from(pool), min_size=len(ref_iv), max_size=len(ref_iv)))
    if len(ref_iv) >= 2 and draw(st.integers(0, 5)) == 0:
        # an extended shorthand directly followed by the same chord with one more degree (72 combinations: state that the second label
        # leaves behind in a module-level table shows only the first time a combination is seen in a process)
        i_ = draw(st.integers(0, len(ref_iv) - 2))
        root_, q_ = draw(st.sampled_from(["C", "E", "Bb", "F#"])), draw(st.sampled_from(["9", "maj9", "min9", "11", "min11", "13", "maj13", "min13", "minmaj7"]))
        d_ = draw(st.sampled_from(["6", "b6", "#11", "b13", "#9", "b9", "#5", "b5"]))
        ref_lab[i_], ref_lab[i_ + 1] = "%s:%s" % (root_, q_), "%s:%s(%s)" % (root_, q_, d_)
    shape = draw(st.sampled_from(["regular", "regular", "identical", "span", "span", "one_interval"]))
    if shape == "identical":
        est_iv, est_lab = [list(r) for r in ref_iv], list(ref_lab)
    elif shape == "one_interval":
        est_iv, est_lab = [[t0, T]], [draw(st.sampled_from(CHORD_LABELS))]
    else:
        kind = draw(st.sampled_from(["same", "same", "longer", "earlier", "shorter", "shorter", "later", "boundary_on_ref_end", "boundary_on_ref_start"]))
        e0, e1 = t0, T
        if kind == "longer":
            e1 = T + 1.5
        elif kind == "earlier" and t0 > 0:
            e0 = t0 - 0.25
        elif kind == "shorter" and (T - t0) * q > 2:
            e1 = T - draw(st.integers(1, int((T - t0) * q) - 1)) / q
        elif kind == "later" and (T - t0) * q > 2:
            e0 = t0 + draw(st.integers(1, int((T - t0) * q) - 1)) / q
        elif kind == "boundary_on_ref_end":
            e1 = T + 1.0
        elif kind == "boundary_on_ref_start" and t0 > 0:
            e0 = t0 - 0.25
        est_iv = draw(gs.partition(e1, q=q, t0=e0))
        forced = T if kind == "boundary_on_ref_end" else (t0 if kind == "boundary_on_ref_start" else None)
        if forced is not None:
            new = []
            for a, b in est_iv:
                new += [[a, forced], [forced, b]] if a < forced < b else [[a, b]]
            est_iv = new
        shape = shape + ":" + kind
        est_lab = draw(st.lists(st.sampled_from(CHORD_LABELS), min_size=len(est_iv), max_size=len(est_iv)))
        # an estimate that stops early / starts late is padded with 'N'; real estimates often end (begin) with silence themselves,
        # so the padding meets an 'N' segment and has to merge with it
        if kind == "shorter" and draw(st.booleans()):
            est_lab[-1] = "N"
        if kind == "later" and draw(st.booleans()):
            est_lab[0] = "N"
    return {"shape": shape, "ref": {"iv": ref_iv, "lab": ref_lab}, "est": {"iv": est_iv, "lab": est_lab}, "kw": {}}


HIER_KW = {"frame_size": st.sampled_from([0.25, 0.5, 1.0]), "beta": st.sampled_from([1.0, 0.5, 2.0]), "window": st.sampled_from([15.0, 1.0, 2.0, 4.0])}


@st.composite
def hierarchy_case(draw):
    T = draw(st.integers(4, 32)) / 4
    ri, rl = draw(gs.hierarchy(T))
    shape = draw(st.sampled_from(["regular", "regular", "identical", "longer", "shorter", "one_frame"]))
    kw = subset(draw, HIER_KW)
    if shape == "identical":
        ei, el = [[list(r) for r in lv] for lv in ri], [list(l) for l in rl]
    elif shape == "longer":
        ei, el = draw(gs.hierarchy(T + 1.0))
    elif shape == "shorter" and T > 1:
        ei, el = draw(gs.hierarchy(T - 0.5))
    elif shape == "one_frame":
        fs = kw.get("frame_size", 0.5)
        kw["frame_size"] = fs
        ri, rl = [[[0.0, fs]]], [["a"]]
        ei, el = [[[0.0, fs]]], [["b"]]
        kw.pop("window", None)
    else:
        ei, el = draw(gs.hierarchy(T))
    if "window" in kw and "frame_size" in kw and kw["frame_size"] > kw["window"]:
        kw["window"] = kw["frame_size"]
    return {"shape": shape, "ref": {"iv": ri, "lab": rl}, "est": {"iv": ei, "lab": el}, "kw": kw}


# ---------------------------------------------------------------- pitch tasks

MEL_KW = {"cent_tolerance": st.sampled_from([50, 25, 100]), "kind": st.sampled_from(["linear", "zero", "nearest"]), "hop": st.sampled_from([0.125, 0.25]),
          "base_frequency": st.sampled_from([10.0, 55.0])}


@st.composite
def melody_case(draw):
    c = draw(gt.melody_case())
    shape = draw(st.sampled_from(["regular", "regular", "regular", "all_unvoiced_ref", "all_unvoiced_est", "identical"]))
    if shape == "all_unvoiced_ref":
        c["ref_freq"] = [0.0] * len(c["ref_freq"])
    elif shape == "all_unvoiced_est":
        c["est_freq"] = [0.0] * len(c["est_freq"])
    elif shape == "identical":
        c["est_time"], c["est_freq"] = list(c["ref_time"]), list(c["ref_freq"])
        c["kw"].pop("est_voicing", None)
    kw = c.pop("kw")
    if draw(st.integers(0, 4)) == 0:
        kw["base_frequency"] = draw(MEL_KW["base_frequency"])
    # time grid: the exact 1/8 s lattice, or real-world grids whose values are not exactly representable / not fixed points of
    # rounding to 10 decimals (hop of 256 samples at 44.1 kHz, decimal 0.1 s steps)
    grid = draw(st.sampled_from(["lattice", "lattice", "hop256", "decimal"]))
    if grid != "lattice":
        g_ = 256 / 44100 if grid == "hop256" else 0.1
        c["ref_time"] = [round(t * 8) * g_ for t in c["ref_time"]]
        c["est_time"] = [round(t * 8) * g_ for t in c["est_time"]]
        if "hop" in kw:
            kw["hop"] = g_ * draw(st.sampled_from([1, 2, 0.5]))
        shape = shape + ":" + grid if shape != "regular" else shape
    return {"shape": shape, "ref": {"time": c["ref_time"], "freq": c["ref_freq"]}, "est": {"time": c["est_time"], "freq": c["est_freq"]}, "kw": kw}


@st.composite
def multipitch_case(draw):
    c = draw(gp.multipitch_pair())
    shape = "regular"
    if draw(st.integers(0, 5)) == 0:
        shape = "identical"
        c["est_time"], c["est_freqs"] = list(c["ref_time"]), [list(f) for f in c["ref_freqs"]]
    elif draw(st.integers(0, 8)) == 0:
        shape = "empty_est_frames"
        c["est_freqs"] = [[] for _ in c["est_freqs"]]
    kw = {"window": c["window"]} if draw(st.booleans()) else {}
    return {"shape": shape, "ref": {"time": c["ref_time"], "freqs": c["ref_freqs"]}, "est": {"time": c["est_time"], "freqs": c["est_freqs"]}, "kw": kw}


NOTE_KW = {"onset_tolerance": st.sampled_from([0.05, 0.0625, 0.125]), "pitch_tolerance": st.sampled_from([50.0, 25.0, 100.0]),
           "offset_ratio": st.sampled_from([0.2, 0.5, None]), "offset_min_tolerance": st.sampled_from([0.05, 0.125]),
           "strict": st.booleans(), "beta": st.sampled_from([1.0, 0.5, 2.0])}


@st.composite
def transcription_case(draw, velocity=False):
    ref = draw(gt.notes())
    shape = draw(st.sampled_from(["regular", "regular", "regular", "identical", "empty_ref", "empty_est", "both_empty", "independent"]))
    if shape == "identical":
        est = [list(n) for n in ref]
    elif shape == "empty_ref":
        ref, est = [], draw(gt.notes())
    elif shape == "empty_est":
        est = []
    elif shape == "both_empty":
        ref, est = [], []
    elif shape == "independent" or not ref:
        est = draw(gt.notes())
    else:
        est = draw(gt.derived_notes(ref))
    params = dict(NOTE_KW)
    if velocity:
        params["velocity_tolerance"] = st.sampled_from([0.1, 0.05, 0.3])
    # notes need not be listed in onset order: one case in three is shuffled (a sorted list is a fixed point of an in-place sort)
    if draw(st.integers(0, 2)) == 0:
        ref = [ref[i] for i in draw(st.permutations(list(range(len(ref)))))]
        est = [est[i] for i in draw(st.permutations(list(range(len(est)))))]
    return {"shape": shape, "ref": ref, "est": est, "kw": subset(draw, params)}


# ---------------------------------------------------------------- tempo / key / pattern / alignment

@st.composite
def tempo_case(draw):
    c = draw(gt.tempo_case())
    shape = "regular"
    if draw(st.integers(0, 5)) == 0:
        shape = "identical"
        c["est"] = list(c["ref"])
    kw = {"tol": c["tol"]} if draw(st.booleans()) else {}
    return {"shape": shape, "ref": {"tempi": c["ref"], "weight": c["weight"]}, "est": c["est"], "kw": kw}


KEY_TONICS = ["c", "c#", "db", "d", "d#", "eb", "e", "f", "f#", "gb", "g", "g#", "ab", "a", "a#", "bb", "b"]


@st.composite
def key_string(draw):
    if draw(st.integers(0, 12)) == 0:
        return draw(st.sampled_from(["X", "x"]))
    t = draw(st.sampled_from(KEY_TONICS))
    if draw(st.booleans()):
        t = t.capitalize()
    return "%s %s" % (t, draw(st.sampled_from(["major", "minor", "major", "minor", "other"])))


@st.composite
def key_case(draw):
    r = draw(key_string())
    e = r if draw(st.integers(0, 4)) == 0 else draw(key_string())
    return {"shape": "identical" if r == e else "regular", "ref": r, "est": e, "kw": {}}


@st.composite
def pattern_case(draw):
    c = draw(gt.pattern_case())
    shape = draw(st.sampled_from(["regular", "regular", "regular", "identical", "empty_ref", "empty_est", "both_empty"]))
    if shape == "identical":
        c["est"] = [[[list(nt) for nt in o] for o in P] for P in c["ref"]]
    elif shape == "empty_ref":
        c["ref"] = []
    elif shape == "empty_est":
        c["est"] = []
    elif shape == "both_empty":
        c["ref"], c["est"] = [], []
    kw = subset(draw, {"n": st.sampled_from([5, 1, 2, 3]), "tol": st.sampled_from([1e-5, 1e-3]),
                       "similarity_metric": st.just("cardinality_score")})
    return {"shape": shape, "ref": c["ref"], "est": c["est"], "kw": kw}


@st.composite
def alignment_case(draw):
    c = draw(gt.alignment_case())
    shape = "regular"
    if draw(st.integers(0, 5)) == 0:
        shape = "identical"
        c["est"] = list(c["ref"])
    kw = {}
    if draw(st.booleans()):
        kw["window"] = c["window"]
    if c["duration"] is not None or c["ref"][0] == c["ref"][-1]:
        # without a duration PCS needs two distinct reference timestamps (documented ValueError otherwise)
        kw["duration"] = max(c["duration"] or 0.0, c["ref"][-1], c["est"][-1])
        if kw["duration"] <= 0:
            kw["duration"] = 1.0
    return {"shape": shape, "ref": c["ref"], "est": c["est"], "kw": kw}


# ---------------------------------------------------------------- builders

def hz_frames(frames):
    return [np.array([gp.midi_to_hz(m) for m in fr], dtype=float) for fr in frames]


def tuples(P):
    return [[[tuple(nt) for nt in o] for o in occ] for occ in P]


def notes_arrays(ns):
    iv = np.array([[n[0], n[1]] for n in ns], dtype=float).reshape(-1, 2)
    return iv, np.array([n[2] for n in ns], dtype=float), np.array([n[3] for n in ns], dtype=float)


def build(task, case):
    """-> (positional args of <task>.evaluate, kwargs); a case carrying "time_scale" gets every time stamp multiplied by it"""
    args, kw = _build(task, case)
    if case.get("time_scale"):
        args, kw = scale_times(task, args, kw, case["time_scale"])
    return args, kw


def _build(task, case):
    r, e = case["ref"], case["est"]
    kw = {k: (np.asarray(v, dtype=float) if isinstance(v, list) else v) for k, v in case["kw"].items()}
    if task in ("beat", "onset", "alignment"):
        return [_a(r), _a(e)], kw
    if task in ("segment", "chord"):
        return [_a(r["iv"], (-1, 2)), list(r["lab"]), _a(e["iv"], (-1, 2)), list(e["lab"])], kw
    if task == "hierarchy":
        return [[_a(lv, (-1, 2)) for lv in r["iv"]], [list(l) for l in r["lab"]], [_a(lv, (-1, 2)) for lv in e["iv"]], [list(l) for l in e["lab"]]], kw
    if task == "melody":
        return [_a(r["time"]), _a(r["freq"]), _a(e["time"]), _a(e["freq"])], kw
    if task == "multipitch":
        return [_a(r["time"]), hz_frames(r["freqs"]), _a(e["time"]), hz_frames(e["freqs"])], kw
    if task == "transcription":
        ri, rp, _ = notes_arrays(r)
        ei, ep, _ = notes_arrays(e)
        return [ri, rp, ei, ep], kw
    if task == "transcription_velocity":
        ri, rp, rv = notes_arrays(r)
        ei, ep, ev = notes_arrays(e)
        return [ri, rp, rv, ei, ep, ev], kw
    if task == "tempo":
        return [_a(r["tempi"]), r["weight"], _a(e)], kw
    if task == "key":
        return [r, e], kw
    if task == "pattern":
        return [tuples(r), tuples(e)], kw
    raise KeyError(task)


TIME_ARGS = {"beat": (0, 1), "onset": (0, 1), "alignment": (0, 1), "segment": (0, 2), "chord": (0, 2), "hierarchy": (0, 2), "melody": (0, 2),
             "multipitch": (0, 2), "transcription": (0, 2), "transcription_velocity": (0, 3)}


def scale_times(task, args, kw, f):
    """The same input with every time stamp multiplied by f (> 0): validity is preserved (order, positivity, equal spans), but the
    values leave the dyadic lattice, i.e. they are no longer fixed points of rounding.  For checks that need no exact oracle."""
    args = list(args)
    for i in TIME_ARGS.get(task, ()):
        args[i] = [np.asarray(x, dtype=float) * f for x in args[i]] if isinstance(args[i], list) else np.asarray(args[i], dtype=float) * f
    kw = dict(kw)
    if task == "alignment" and kw.get("duration") is not None:
        kw["duration"] = kw["duration"] * f * (1 + 1e-12)
    return args, kw


STRATEGIES = {
    "beat": beat_case, "onset": onset_case, "segment": segment_case, "chord": chord_case, "hierarchy": hierarchy_case,
    "melody": melody_case, "multipitch": multipitch_case, "transcription": transcription_case,
    "transcription_velocity": lambda: transcription_case(velocity=True), "tempo": tempo_case, "key": key_case,
    "pattern": pattern_case, "alignment": alignment_case,
}
TASKS = list(STRATEGIES)
OFF_LATTICE = 1.0003333333333333


def _with_time_scale(strat):
    """One case in four leaves the exact lattice (all time stamps times 1 + 1/3000): the checks built on the registry (C01, C02, C03, C14,
    C15) compare mir_eval with itself or with a range and need no exact arithmetic, and lattice values are fixed points of rounding."""
    @st.composite
    def s(draw):
        c = draw(strat())
        c["time_scale"] = draw(st.sampled_from([None, None, None, OFF_LATTICE]))
        return c
    return s


STRATEGIES = {k: (_with_time_scale(v) if k in TIME_ARGS else v) for k, v in STRATEGIES.items()}


def module(task):
    return getattr(mir_eval, task)


def _nonempty(x):
    if isinstance(x, dict):
        return any(bool(v) for v in x.values())
    return bool(x)


def sides(case):
    """-> (reference non-empty, estimate non-empty)"""
    return _nonempty(case["ref"]), _nonempty(case["est"])
