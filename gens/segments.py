"""Strategies for labeled segmentations and hierarchies on a dyadic lattice."""
from hypothesis import strategies as st

LABELS = ["a", "b", "A", "c", "B", "verse", "Verse"]


@st.composite
def partition(draw, T, q=8, max_n=7, t0=0.0, cuts_from=None):
    """Contiguous intervals covering [t0, T] with lattice cut points."""
    k0, k1 = int(round(t0 * q)), int(round(T * q))
    if k1 - k0 <= 1:
        cuts = []
    elif cuts_from is not None:
        cuts = sorted(set(draw(st.lists(st.sampled_from(cuts_from), max_size=max_n - 1))) | set(
            draw(st.lists(st.integers(k0 + 1, k1 - 1), max_size=2))))
        cuts = [c for c in cuts if k0 < c < k1]
    else:
        n = min(draw(st.sampled_from([0, 1, 2, 2, 3, 3, 4, 4, 5, 6][:max(1, max_n + 3)])), max_n - 1, k1 - k0 - 1)
        cuts = sorted(draw(st.lists(st.integers(k0 + 1, k1 - 1), min_size=n, max_size=n, unique=True)))
    b = [k0] + list(cuts) + [k1]
    return [[b[i] / q, b[i + 1] / q] for i in range(len(b) - 1)]


@st.composite
def labeled_segmentation(draw, T, q=8, max_n=7, labels=None, t0=0.0):
    iv = draw(partition(T, q=q, max_n=max_n, t0=t0))
    kind = draw(st.sampled_from(["few"] * 5 + ["many"] * 4 + ["one", "unique"]))
    pool = labels or LABELS
    if kind == "few":
        pool = pool[:4]
    if kind == "one":
        labs = [pool[0]] * len(iv)
    elif kind == "unique":
        labs = ["s%d" % i for i in range(len(iv))]
    else:
        labs = draw(st.lists(st.sampled_from(pool), min_size=len(iv), max_size=len(iv)))
    return iv, labs


FRAME_SIZES = [0.125, 0.25, 0.5, 1.0, 2.0, 0.75, 1.5, 0.1, 0.3]


@st.composite
def segmentation_pair(draw, q=8, max_T=16, frame_sizes=None):
    T = draw(st.integers(1, max_T * 2)) / 2
    a, al = draw(labeled_segmentation(T, q=q))
    how = draw(st.sampled_from(["indep"] * 6 + ["same_bounds", "same_bounds", "relabel", "identical"]))
    if how == "indep":
        b, bl = draw(labeled_segmentation(T, q=q))
    elif how == "same_bounds":
        b = [list(r) for r in a]
        bl = draw(st.lists(st.sampled_from(LABELS[:4]), min_size=len(b), max_size=len(b)))
    elif how == "relabel":
        b = [list(r) for r in a]
        names = {}
        bl = []
        for l in al:
            names.setdefault(l.lower(), "Z%d" % len(names))
            bl.append(names[l.lower()])
    else:
        b, bl = [list(r) for r in a], list(al)
    fs = draw(st.sampled_from(frame_sizes or FRAME_SIZES))
    return {"ref_iv": a, "ref_lab": al, "est_iv": b, "est_lab": bl, "frame_size": fs,
            "beta": draw(st.sampled_from([1.0, 1.0, 0.5, 2.0]))}


@st.composite
def hierarchy(draw, T, q=4, max_levels=4, nested=None, labels="abAB"):
    levels = draw(st.sampled_from([1, 2, 2, 3, 3, 4][:max_levels + 2]))
    nested = draw(st.booleans()) if nested is None else nested
    ivs, labs = [], []
    prev = None
    k1 = int(round(T * q))
    for l in range(levels):
        n = min(draw(st.sampled_from([0, 1, 1, 2, 2, 3, 4])) + (l > 0), max(0, k1 - 1))
        cuts = set(draw(st.lists(st.integers(1, k1 - 1), min_size=n, max_size=n, unique=True))) if k1 > 1 else set()
        if nested and prev is not None:
            cuts |= prev
        prev = cuts
        b = [0] + sorted(cuts) + [k1]
        iv = [[b[i] / q, b[i + 1] / q] for i in range(len(b) - 1)]
        ivs.append(iv)
        labs.append(draw(st.lists(st.sampled_from(list(labels)), min_size=len(iv), max_size=len(iv))))
    return ivs, labs
