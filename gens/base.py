"""Shared Hypothesis strategies.  All cases are plain Python data (lists, floats,
strings, dicts) so they serialise exactly; predicates build numpy arrays.

Times live on dyadic lattices k / 2**q so that differences, products with 100
and divisions by dyadic frame sizes are exact in binary floating point
(DESIGN 2.1); pitches live on a cent lattice around reference frequencies.
"""
from hypothesis import strategies as st


def dyadic(lo, hi, q):
    """Floats k/q for integer k with lo <= k/q <= hi (q a power of two)."""
    return st.integers(int(lo * q), int(hi * q)).map(lambda k: k / q)


@st.composite
def event_list(draw, q=16, lo=0.0, hi=12.0, max_n=12, min_n=0, allow_dups=True, sort=True):
    """Sorted lattice event times; modes: uniform, quasi-periodic, clustered, duplicates."""
    mode = draw(st.sampled_from(["uniform", "periodic", "cluster", "dups"]))
    n = draw(st.integers(min_n, max_n))
    if n == 0:
        return []
    if mode == "uniform":
        xs = draw(st.lists(dyadic(lo, hi, q), min_size=n, max_size=n))
    elif mode == "periodic":
        period = draw(st.sampled_from([0.25, 0.5, 0.75, 1.0]))
        t0 = draw(dyadic(lo, min(hi, lo + 2), q))
        jit = draw(st.lists(st.integers(-2, 2), min_size=n, max_size=n))
        xs = [min(hi, max(lo, t0 + i * period + j / q)) for i, j in enumerate(jit)]
    elif mode == "cluster":
        c = draw(dyadic(lo, hi, q))
        offs = draw(st.lists(st.integers(-4, 4), min_size=n, max_size=n))
        xs = [min(hi, max(lo, c + o / q)) for o in offs]
    else:
        base = draw(st.lists(dyadic(lo, hi, q), min_size=1, max_size=max(1, n // 2)))
        idx = draw(st.lists(st.integers(0, len(base) - 1), min_size=n, max_size=n))
        xs = [base[i] for i in idx]
    if not allow_dups:
        xs = list(dict.fromkeys(xs))
    if sort:
        xs = sorted(xs)
    return xs


@st.composite
def derived_events(draw, ref, q=16, lo=0.0, hi=12.0):
    """An estimate derived from ref: jitter / drop / insert / duplicate."""
    est = []
    for r in ref:
        a = draw(st.sampled_from(["keep", "keep", "jit", "jit", "drop", "dup"]))
        if a == "keep":
            est.append(r)
        elif a == "jit":
            est.append(min(hi, max(lo, r + draw(st.integers(-6, 6)) / q)))
        elif a == "dup":
            est.extend([r, r])
    extra = draw(st.lists(dyadic(lo, hi, q), max_size=3))
    return sorted(est + extra)


@st.composite
def event_pair(draw, q=16, lo=0.0, hi=12.0, max_n=12, allow_dups=True):
    ref = draw(event_list(q=q, lo=lo, hi=hi, max_n=max_n, allow_dups=allow_dups))
    if ref and draw(st.booleans()):
        est = draw(derived_events(ref, q=q, lo=lo, hi=hi))
        if not allow_dups:
            est = sorted(set(est))
    else:
        est = draw(event_list(q=q, lo=lo, hi=hi, max_n=max_n, allow_dups=allow_dups))
    return ref, est


def permutation(n):
    return st.permutations(list(range(n)))


# ---- pitches on a cent lattice -------------------------------------------

BASE_HZ = [110.0, 220.0, 261.6255653005986, 440.0, 880.0]
# cent offsets keep >= 0.5 cent away from the tolerances in use (25, 50, 100)
CENT_OFFSETS = [0, 0, 0, 10, -10, 20, 30, 40, 49, -49, 51, -51, 60, 75, 99, 101, -99, 150, 200,
                700, 1149, 1151, 1200, -1200, 1210, 2400, 24, 26, -24, -26]


@st.composite
def pitch_hz(draw):
    b = draw(st.sampled_from(BASE_HZ))
    c = draw(st.sampled_from(CENT_OFFSETS))
    return b * 2.0 ** (c / 1200.0)
