#!/venv/bin/python
"""./check <Cnn> quick|thorough [--only a,b] [--n N] [--procs P]   |   ./check <Cnn> --replay <file>"""
import argparse
import os
import sys

sys.path.insert(0, os.path.dirname(os.path.abspath(__file__)))


def main():
    ap = argparse.ArgumentParser()
    ap.add_argument("prop")
    ap.add_argument("tier", nargs="?", default=os.environ.get("VERIF_TIER", "quick"))
    ap.add_argument("--replay")
    ap.add_argument("--only")
    ap.add_argument("--n", type=int)
    ap.add_argument("--procs", type=int)
    a = ap.parse_args()
    try:
        from vlib import runner
        seed = int(os.environ.get("VERIF_SEED", "1") or "1")
        if a.replay:
            bad, msg, ctx = runner.replay_file(a.replay)
            if bad:
                print("violation: %s" % msg)
                print("VIOLATION property=%s replay=%s" % (a.prop, a.replay))
                return 1
            for sig, n in ctx.known_hits.items():
                print("KNOWN-FINDING: property=%s %s (replayed case)" % (a.prop, sig))
            print("replay: property held on the stored case")
            return 0
        if a.tier not in runner.TIERS:
            print("tier must be quick or thorough", file=sys.stderr)
            return 2
        return runner.run_property(a.prop, a.tier, seed, only=set(a.only.split(",")) if a.only else None,
                                   n_override=a.n, procs=a.procs)
    except SystemExit:
        raise
    except BaseException:
        import traceback
        traceback.print_exc()
        print("HARNESS-ERROR: check could not run", file=sys.stderr)
        return 2


if __name__ == "__main__":
    sys.exit(main())
