HOOK_COMMITS = []
NOT_APPLICABLE = {}
BASE_NOTE = "Trusted base: NumPy/SciPy, CPython float semantics, Hypothesis' generators, and the reference models under /verif/oracles (each was run against the unchanged tree before being believed; conventions taken from the code are listed in DESIGN.md). A pass means: not falsified on the generated/enumerated cases counted in the evidence file."
CHECKS = {
 "C05": {"text": "Exhaustive over every bipartite graph up to 4x4 (quick) / 4x5, 5x4, 5x5 with all insertion orders (thorough) against two independent maximum-matching oracles, plus thousands of generated event, chroma and note sets on exact lattices checked for validity, maximality and order-independence. Exhaustive where the domain is finite, sampled beyond; cannot establish absence for larger graphs.",
         "design_ref": "DESIGN.md section 3, C05", "note": BASE_NOTE,
         "technique": "property-based testing: exhaustive small-graph enumeration + Hypothesis-generated event/note sets vs brute-force maximum matching and validity predicate"},
 "C13": {"text": "Thousands of generated labeled-interval arrays (contiguous and gapped) with crop points forced onto boundaries, inside intervals and beyond the span, checked point-wise against the labelling function before/after adjust_intervals/adjust_events, common-refinement and duration conservation for merge_labeled_intervals, closed-interval/later-wins labelling for interpolate_intervals/intervals_to_samples and the boundaries<->intervals inverse pair. Sampled, exact on the dyadic lattice; found and now guards the zero-duration defect (FX-03).",
         "design_ref": "DESIGN.md section 3, C13", "note": BASE_NOTE,
         "technique": "property-based testing: Hypothesis-generated interval arrays and crop points vs point-wise labelling-function oracle (metamorphic/round-trip)"},
 "C10": {"text": "Exhaustive over every label derivable from the documented grammar to a depth bound (160 380 labels quick, ~4.8 M thorough) x both encode flags, compared with an independent recursive-descent parser/encoder; plus grammar-random labels, single-edit mutants and arbitrary text for totality (only InvalidChordException may escape), structure of the encoding, split/join round trip and N/X sentinels. Exhaustive inside the bound, sampled beyond; found and now guards the trailing-newline defect (FX-09).",
         "design_ref": "DESIGN.md section 3, C10", "note": BASE_NOTE,
         "technique": "property-based testing / grammar-based fuzzing: exhaustive grammar enumeration + Hypothesis grammar-random, mutated and arbitrary strings vs an independent parser/encoder (differential) and a split/join round trip"},
 "C11": {"text": "All ordered pairs over a core label set (26 k pairs quick, ~360 k thorough) plus generated near-miss pairs from an ~8 000-label pool, each checked for range {-1,0,1}, reference-only vocabulary, reflexivity, the 13 lattice implications, and value equality with a rule model computed from the independent encoder. Exhaustive on the core set, sampled on the pool.",
         "design_ref": "DESIGN.md section 3, C11", "note": BASE_NOTE,
         "technique": "property-based testing: exhaustive label-pair enumeration + Hypothesis near-miss pairs vs implication lattice (invariants) and an independent rule model (differential)"},
}
