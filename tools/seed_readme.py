#!/venv/bin/python
"""Regenerate seeded/README.md from seeded/*/meta.json (which checks catch which independent seeded change)."""
import glob, json, os
ROOT = os.path.dirname(os.path.dirname(os.path.abspath(__file__)))
rows = []
for f in sorted(glob.glob(os.path.join(ROOT, "seeded", "C*", "meta.json"))):
    m = json.load(open(f))
    first = next((l.strip("# -*").strip() for l in m["needs_to_manifest"].splitlines() if l.strip()), "")
    c = m["confirmed"]
    rows.append("| %s | %s | demo %s -> %s; baseline %s; tests/ %s | %s | %s | %s |" % (
        m.get("name", m["property"]), first[:150].replace("|", "/"), c["demo_exit_on_unchanged_tree"], c["demo_exit_on_changed_tree"], c["baseline_tests_still_passing"],
        (c["full_suite_from_tests_dir"] or "").split(",")[0][:40], "yes" if m["target_check_catches_it"] else "**no**", ", ".join(m["caught_by"]) or "none",
        m.get("after_strengthening", "")))
out = ["# Independent seeded changes", "",
       "Each change was written by a sub-agent that saw only the text of one property and a scratch worktree of /repo (nothing from /verif).",
       "`selftest/record_seed.py <Cnn>` confirmed it on a scratch copy (demo passes without / fails with the change, baseline tests unchanged) and ran",
       "the check of the targeted property (quick tier) against the changed copy - and every registered check when that one missed it (rounds 1-2: always every check).  `meta.json` in each directory holds the full record.", "",
       "| property | change (first line of the author's notes) | confirmation | caught by its own check (quick) | caught by | after strengthening |",
       "|---|---|---|---|---|---|"] + rows
open(os.path.join(ROOT, "seeded", "README.md"), "w").write("\n".join(out) + "\n")
print("\n".join(rows))
