#!/bin/bash
# tools/run_all.sh [quick|thorough] [seed]  -- run every registered check sequentially, print one status line each
cd "$(dirname "$0")/.." || exit 2
TIER="${1:-quick}"; export VERIF_SEED="${2:-1}"
rc_all=0
for P in $(/venv/bin/python -c "import json;print(' '.join(c['property_id'] for c in json.load(open('MANIFEST.json'))['checks']))"); do
  s=$(date +%s); out=$(./check "$P" "$TIER" 2>&1); rc=$?; e=$(date +%s)
  echo "$P rc=$rc $((e-s))s $(echo "$out" | grep -E "^$P " | cut -c1-90) $(echo "$out" | grep -c '^KNOWN-FINDING') known"
  if [ $rc -ne 0 ]; then rc_all=1; echo "$out" | grep -E "VIOLATION|violation|HARNESS" | head -5 | cut -c1-300; fi
done
exit $rc_all
