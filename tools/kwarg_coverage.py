#!/venv/bin/python
"""tools/kwarg_coverage.py [--n N] [Cnn ...]
Runs the quick tier of every check with the keyword-coverage probe (vlib/kwcov.py) and writes selftest/KWARG_COVERAGE.md:
for every keyword parameter of every public mir_eval function, which checks passed a non-default value (directly or through
evaluate()), how many distinct values, and in which combinations with other keywords.  Diagnostic only."""
import glob
import inspect
import json
import os
import shutil
import subprocess
import sys

ROOT = os.path.dirname(os.path.dirname(os.path.abspath(__file__)))
sys.path.insert(0, ROOT)
from vlib import kwcov  # noqa: E402

args = sys.argv[1:]
n = "150"
if "--n" in args:
    i = args.index("--n")
    n = args[i + 1]
    del args[i:i + 2]
checks = args or ["C%02d" % i for i in range(1, 21)]
work = os.path.join(ROOT, ".work", "kwcov")
agg = {}      # func -> kw -> check -> {values}
combos = {}   # func -> check -> combo -> count
calls = {}    # func -> check -> calls
for c in checks:
    shutil.rmtree(work, ignore_errors=True)
    env = dict(os.environ, VERIF_KWCOV=work, VERIF_NO_EVIDENCE="1")
    r = subprocess.run([os.path.join(ROOT, "check"), c, "quick", "--n", n], env=env, capture_output=True, text=True)
    if r.returncode != 0:
        print("warning: %s exited %d under the probe" % (c, r.returncode))
    for f in glob.glob(os.path.join(work, "*.json")):
        for func, rec in json.load(open(f)).items():
            calls.setdefault(func, {}).setdefault(c, 0)
            calls[func][c] += rec["calls"]
            for k, vals in rec["kw"].items():
                agg.setdefault(func, {}).setdefault(k, {}).setdefault(c, set()).update(vals)
            for cb, cnt in rec["combos"].items():
                d = combos.setdefault(func, {}).setdefault(c, {})
                d[cb] = d.get(cb, 0) + cnt
    print(c, "done", flush=True)
shutil.rmtree(work, ignore_errors=True)

kwcov._build()
out = ["# Keyword coverage of the generators (diagnostic)", "",
       "Produced by `tools/kwarg_coverage.py --n %s` (quick tier, seed 1, %s cases per generated sub-property) with the profiling probe" % (n, n),
       "`vlib/kwcov.py`.  For every keyword parameter of every public mir_eval function: the checks in which the function was *entered* with a",
       "non-default value of that keyword (directly or through `evaluate()`), with the number of distinct values seen (capped at 16).",
       "`-` = the function was called by some check but the keyword always had its default; `not called` = no check reaches the function.",
       "The last column lists, per check, the largest keyword combinations that occurred together in one call.", "",
       "| function | keyword (default) | non-default in | never non-default although called in | combinations seen |", "|---|---|---|---|---|"]
gaps = []
for code, (func, defaults) in sorted(kwcov._codes.items(), key=lambda kv: kv[1][0]):
    for k, dv in defaults.items():
        per = agg.get(func, {}).get(k, {})
        called = sorted(calls.get(func, {}))
        nd = ", ".join("%s(%d)" % (c, len(v)) for c, v in sorted(per.items()))
        never = ", ".join(c for c in called if c not in per)
        cb = []
        for c in called:
            best = sorted((x for x in combos.get(func, {}).get(c, {}) if x and "+" in x), key=lambda x: -x.count("+"))[:1]
            if best:
                cb.append("%s: %s" % (c, best[0]))
        if not called:
            nd, never = "not called", ""
        elif not per:
            nd = "-"
            gaps.append("%s(%s)" % (func, k))
        out.append("| %s | %s (%s) | %s | %s | %s |" % (func, k, repr(dv)[:20], nd, never, "; ".join(cb[:4])))
out += ["", "Keywords that no check ever sets to a non-default value although the function is reached: " + (", ".join(gaps) or "none") + "."]
open(os.path.join(ROOT, "selftest", "KWARG_COVERAGE.md"), "w").write("\n".join(out) + "\n")
print("gaps:", gaps)
