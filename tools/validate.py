#!/opt/veriftools/pyvenv/bin/python
"""Validate MANIFEST.json and every evidence file against the schemas (run with python3-vt: has jsonschema)."""
import json, glob, sys, jsonschema
ok = True
m = json.load(open("/verif/MANIFEST.json"))
jsonschema.validate(m, json.load(open("/root/.vp/MANIFEST.schema.json")))
es = json.load(open("/root/.vp/EVIDENCE.schema.json"))
for c in m["checks"]:
    try:
        e = json.load(open(c["evidence_file"]))
        jsonschema.validate(e, es)
        assert e["property_id"] == c["property_id"]
        print("ok  ", c["property_id"], e["tier"], e["coverage"]["evaluations"], e["coverage"]["distinct_nontrivial"], e["wall_s"])
    except Exception as ex:
        ok = False
        print("BAD ", c["property_id"], str(ex)[:200])
sys.exit(0 if ok else 1)
