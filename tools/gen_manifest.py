#!/venv/bin/python
"""Regenerate /verif/MANIFEST.json from the table below (keeps it schema-valid at all times)."""
import json, os, sys
ROOT = os.path.dirname(os.path.dirname(os.path.abspath(__file__)))
sys.path.insert(0, ROOT)
from tools.manifest_table import CHECKS, NOT_APPLICABLE, HOOK_COMMITS  # noqa

props = [json.loads(l)["id"] for l in open(os.path.join(ROOT, "properties.jsonl"))]
checks = []
for pid in props:
    if pid not in CHECKS:
        continue
    c = CHECKS[pid]
    checks.append({
        "property_id": pid,
        "quick_cmd": "./check %s quick" % pid,
        "thorough_cmd": "./check %s thorough" % pid,
        "evidence_file": "/verif/evidence/%s.json" % pid,
        "replay_cmd_template": "./check %s --replay {path}" % pid,
        "engine": "pbt-runner",
        "level_claimed": {"category": c.get("category", "exploration"), "text": c["text"], "design_ref": c["design_ref"]},
        "level_note": c["note"],
        "technique": c["technique"],
    })
na = [{"property_id": p, "reason": NOT_APPLICABLE.get(p, "check not built yet (work in progress; see DESIGN.md section 3 for the plan)")}
      for p in props if p not in CHECKS]
m = {
    "version": 1,
    "setup_cmd": "./setup.sh",
    "hooks": {"guard": "MIR_EVAL_VERIF", "enable": "no hooks are needed: mir_eval is pure Python and every check imports it from /repo's working tree in a fresh interpreter (sys.path[0] = VERIF_REPO, asserted)",
              "baseline_off_cmd": "cd /repo && /venv/bin/python -m pytest -ra -q -p no:cacheprovider --timeout=900 --continue-on-collection-errors",
              "source_commits": HOOK_COMMITS, "add_only": True},
    "engines": [{"name": "pbt-runner", "path": "/verif/vlib/runner.py", "serves_properties": [c["property_id"] for c in checks],
                 "kind_free_text": "Hypothesis 6.168 generated-input search + exhaustive enumeration of finite sub-domains, sharded over a 16-process pool; explicit oracles per property in /verif/checks and /verif/oracles; shrunk failures become JSON replay files executed without Hypothesis"}],
    "checks": checks,
    "notes": "Exit codes: 0 held, 1 violation (VIOLATION line), 2 harness failure (never a VIOLATION line). VERIF_SEED selects the seed; VERIF_REPO may point the checks at another working tree (used by selftest/). known_findings.json lists open findings (KNOWN-FINDING lines) and fixed ones.",
}
if na:
    m["not_applicable"] = na
json.dump(m, open(os.path.join(ROOT, "MANIFEST.json"), "w"), indent=1)
print("MANIFEST.json: %d checks, %d not claimed" % (len(checks), len(na)))
try:
    import jsonschema
    jsonschema.validate(m, json.load(open("/root/.vp/MANIFEST.schema.json")))
    print("schema: valid")
except ImportError:
    pass
