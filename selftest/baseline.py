#!/venv/bin/python
"""selftest/baseline.py [repo_dir] -- run the repository's pinned test command in repo_dir (guard off) and
compare the set of passing tests with /root/.vp/BASELINE.json (stable_pass).  Exit 0 iff every baseline pass
still passes."""
import json, os, subprocess, sys, tempfile
import xml.etree.ElementTree as ET

repo = os.path.realpath(sys.argv[1] if len(sys.argv) > 1 else "/repo")
base = json.load(open("/root/.vp/BASELINE.json"))
want = set(base["stable_pass"])
fd, xml = tempfile.mkstemp(suffix=".xml", dir="/tmp"); os.close(fd)
env = dict(os.environ); env.pop("MIR_EVAL_VERIF", None); env["PYTHONDONTWRITEBYTECODE"] = "1"
for _k in ("OMP_NUM_THREADS", "OPENBLAS_NUM_THREADS", "MKL_NUM_THREADS"):
    env.setdefault(_k, "1")    # the result does not depend on BLAS threading; avoids oversubscription on a busy machine
subprocess.run(["/venv/bin/python", "-m", "pytest", "-q", "-p", "no:cacheprovider", "--timeout=" + os.environ.get("BASELINE_TIMEOUT", "900"),
                "--continue-on-collection-errors", "--junitxml=" + xml], cwd=repo, env=env,
               stdout=subprocess.DEVNULL, stderr=subprocess.DEVNULL)
got = set()
for tc in ET.parse(xml).getroot().iter("testcase"):
    if not any(ch.tag in ("failure", "error", "skipped") for ch in tc):
        got.add("%s::%s" % (tc.get("classname"), tc.get("name")))
os.unlink(xml)
missing = sorted(want - got)
print("baseline: %d/%d baseline passes still pass; %d passing in total" % (len(want & got), len(want), len(got)))
for m in missing:
    print("  no longer passing:", m)
sys.exit(1 if missing else 0)
