#!/bin/bash
# selftest/run_matrix.sh [--tests]  -- run every mutant selftest/mutants/cNN_*.diff against check CNN (quick tier) and every
# selftest/fixes/FX-*.diff reversed against the check(s) that motivated it; prints a kill matrix (markdown).
cd "$(dirname "$0")/.." || exit 2
T=""; [ "${1:-}" = "--tests" ] && T="--tests"
echo "| mutant / reverted fix | check | outcome | baseline tests |"
echo "|---|---|---|---|"
for m in selftest/mutants/*.diff; do
  b=$(basename "$m" .diff); P=$(echo "${b%%_*}" | tr a-z A-Z)
  out=$(timeout 1800 selftest/run_mutant.sh "$m" "$P" $T 2>&1)
  res=$(echo "$out" | grep -E "^(KILLED|SURVIVED|HARNESS)" | awk '{print $1}' | tr '\n' ' ')
  bt=$(echo "$out" | grep -E "^BASELINE" | sed 's/BASELINE-TESTS //' | cut -c1-60)
  echo "| $b | $P | $res | ${bt:-not run} |"
done
declare -A FIXP=( [FX-02]=C03 [FX-03]="C13 C14" [FX-04]="C15" [FX-05]="C15" [FX-06a]="C19" [FX-06b]="C19 C15" [FX-07]="C14" [FX-08]="C17 C14" [FX-09]="C10" [FX-10]="C01" [FX-11]="C20" [FX-12]="C16" [FX-13]="C05 C14" [FX-14]="C19" )
for f in selftest/fixes/*.diff; do
  b=$(basename "$f" .diff); id=${b%%_*}
  for P in ${FIXP[$id]}; do
    out=$(timeout 1800 selftest/run_mutant.sh "$f" "$P" --reverse 2>&1)
    echo "| revert $b | $P | $(echo "$out" | grep -E "^(KILLED|SURVIVED|HARNESS)" | awk '{print $1}') | n/a |"
  done
done
