#!/bin/bash
# selftest/fulltests.sh [repo]: run the whole suite from inside tests/ (where the fixtures resolve), ignoring the
# image-comparison display tests; prints failing test ids and the summary line.
R="${1:-/repo}"
cd "$R/tests" && OMP_NUM_THREADS=1 OPENBLAS_NUM_THREADS=1 MKL_NUM_THREADS=1 PYTHONPATH="$R" PYTHONDONTWRITEBYTECODE=1 /venv/bin/python -m pytest -q -p no:cacheprovider --no-cov --ignore=test_display.py 2>&1 | grep -E "^(FAILED|ERROR)| passed| failed" | tail -15
