#!/venv/bin/python
"""selftest/mkmut.py <name> <file under mir_eval/> <old> <new>  -- write selftest/mutants/<name>.diff (unified, -p1)
replacing the first occurrence of <old> by <new> in /repo's current file."""
import difflib, os, sys
name, f, old, new = sys.argv[1:5]
p = os.path.join(os.environ.get("SRC_REPO", "/repo"), "mir_eval", f)
s = open(p).read()
if s.count(old) < 1:
    sys.exit("pattern not found in %s" % p)
t = s.replace(old, new, 1)
d = "".join(difflib.unified_diff(s.splitlines(True), t.splitlines(True), "a/mir_eval/" + f, "b/mir_eval/" + f))
out = os.path.join(os.path.dirname(os.path.abspath(__file__)), "mutants", name + ".diff")
open(out, "w").write(d)
print(out, len(d.splitlines()), "lines")
