#!/bin/bash
# selftest/run_mutant.sh <patch.diff> <Cnn>[,<Cnn>...] [--tests] [--tier quick|thorough] [--reverse]
# Applies a patch to a scratch copy of /repo (outside /repo and /verif), runs the named checks against it
# with VERIF_REPO, optionally the repository's own baseline tests, then removes the copy.
# Prints one line per check: KILLED (exit 1 + VIOLATION), SURVIVED (exit 0) or HARNESS-ERROR (exit 2).
set -u
PATCH="$(realpath "$1")"; PROPS="$2"; shift 2
TESTS=0; TIER=quick; REV=""
while [ $# -gt 0 ]; do case "$1" in --tests) TESTS=1;; --tier) TIER="$2"; shift;; --reverse) REV="-R";; esac; shift; done
VERIF="$(cd "$(dirname "$0")/.." && pwd)"
W="$(mktemp -d /tmp/mut.XXXXXX)"
trap 'rm -rf "$W"' EXIT
rsync -a --exclude .git --exclude .coverage --exclude coverage.xml "${SRC_REPO:-/repo}/" "$W/repo/"
[ -s "$PATCH" ] || { echo "EMPTY-PATCH $PATCH"; exit 3; }
( cd "$W/repo" && patch -p1 $REV --no-backup-if-mismatch -s < "$PATCH" ) || { echo "PATCH-FAILED $PATCH"; exit 3; }
if [ "$TESTS" = 1 ]; then
  if BASELINE_TIMEOUT=60 "$VERIF/selftest/baseline.py" "$W/repo" > "$W/tests.log" 2>&1; then echo "BASELINE-TESTS pass: $(head -1 "$W/tests.log")"; else echo "BASELINE-TESTS FAIL: $(tr '\n' ' ' < "$W/tests.log" | cut -c1-300)"; fi
fi
rc_all=0
for P in ${PROPS//,/ }; do
  out="$(cd "$VERIF" && VERIF_REPO="$W/repo" VERIF_NO_EVIDENCE=1 VERIF_CALL_TIMEOUT=${VERIF_CALL_TIMEOUT:-20} ./check "$P" "$TIER" 2>&1)"; rc=$?
  case $rc in
    1) echo "KILLED   $P  $(basename "$PATCH")  $(echo "$out" | grep -m1 '^violation' | cut -c1-220)";;
    0) echo "SURVIVED $P  $(basename "$PATCH")"; rc_all=1;;
    *) echo "HARNESS-ERROR($rc) $P $(basename "$PATCH")  $(echo "$out" | grep -m3 -E 'HARNESS|Error' | tr '\n' ' ' | cut -c1-300)"; rc_all=2;;
  esac
done
exit $rc_all
