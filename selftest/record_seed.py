#!/venv/bin/python
"""selftest/record_seed.py <Cnn> [src_dir] -- confirm a sub-agent's seeded change and store it under /verif/seeded/<Cnn>/.
Runs selftest/eval_seed.sh (scratch copy of /repo: demo without/with the change, baseline and full tests, every registered check)
and writes meta.json with exactly what was run and what came out."""
import json, os, re, shutil, subprocess, sys, time

pid = sys.argv[1]
src = sys.argv[2] if len(sys.argv) > 2 else "/tmp/seed/%s/_seed" % pid
root = os.path.dirname(os.path.dirname(os.path.abspath(__file__)))
name = os.environ.get("SEED_NAME", pid)          # e.g. C01r2 for a second independent change against the same property
dst = os.path.join(root, "seeded", name)
os.makedirs(dst, exist_ok=True)
for f in ("patch.diff", "demo.py", "notes.md"):
    if os.path.exists(os.path.join(src, f)):
        shutil.copy(os.path.join(src, f), os.path.join(dst, f))
t0 = time.time()
out = subprocess.run([os.path.join(root, "selftest", "eval_seed.sh"), dst] + sys.argv[3:], capture_output=True, text=True).stdout
print(out)
demo_clean = re.search(r"demo on unchanged tree: exit (\d+)", out)
demo_pat = re.search(r"demo on changed tree:\s+exit (\d+)", out)
base = re.search(r"baseline: (\d+)/(\d+)", out)
full = re.search(r"full suite from tests/: (.*)", out)
checks = {m.group(2): {"outcome": m.group(1), "detail": m.group(3).strip()[:300]} for m in re.finditer(r"^(KILLED|SURVIVED|HARNESS-ERROR\(\d+\))\s+(C\d+)(.*)$", out, re.M)}
prop = next(json.loads(l) for l in open(os.path.join(root, "properties.jsonl")) if json.loads(l)["id"] == pid)
notes = open(os.path.join(dst, "notes.md")).read() if os.path.exists(os.path.join(dst, "notes.md")) else ""
meta = {
    "property": pid, "property_title": prop["title"],
    "origin": "written by an independent sub-agent that was given only the property text and a scratch worktree of /repo (nothing from /verif)",
    "needs_to_manifest": notes[:3000],
    "confirmed": {
        "demo_exit_on_unchanged_tree": int(demo_clean.group(1)) if demo_clean else None,
        "demo_exit_on_changed_tree": int(demo_pat.group(1)) if demo_pat else None,
        "baseline_tests_still_passing": "%s/%s" % (base.group(1), base.group(2)) if base else None,
        "full_suite_from_tests_dir": full.group(1).strip() if full else None,
    },
    "name": name,
    "what_was_run": ["selftest/eval_seed.sh seeded/%s  (scratch copy of /repo under /tmp, removed afterwards): demo.py on the unchanged copy, "
                     "patch -p1 < patch.diff, demo.py on the changed copy, selftest/baseline.py, selftest/fulltests.sh, then "
                     "VERIF_REPO=<copy> ./check <Cnn> quick for every registered check" % name],
    "checks": checks,
    "caught_by": sorted(k for k, v in checks.items() if v["outcome"] == "KILLED"),
    "target_check_catches_it": checks.get(pid, {}).get("outcome") == "KILLED",
    "wall_s": round(time.time() - t0, 1),
}
json.dump(meta, open(os.path.join(dst, "meta.json"), "w"), indent=1)
print("recorded", dst, "caught by", meta["caught_by"])
