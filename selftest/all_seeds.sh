#!/bin/bash
# selftest/all_seeds.sh [pattern]  -- re-run, for every stored independent change seeded/<name>/ (optionally only names matching the
# pattern), the quick tier of the check of the property it was written against, on a scratch copy of /repo with the change applied
# (no test-suite run: that was done when the change was recorded).  Prints a markdown table; exit 1 if any change survives.
cd "$(dirname "$0")/.." || exit 2
PAT="${1:-.}"
echo "| seeded change | check | outcome |"
echo "|---|---|---|"
rc=0
for d in seeded/C*/; do
  n=$(basename "$d"); echo "$n" | grep -qE "$PAT" || continue
  P=${n:0:3}
  out=$(timeout 2400 selftest/run_mutant.sh "$d/patch.diff" "$P" 2>&1)
  res=$(echo "$out" | grep -E "^(KILLED|SURVIVED|HARNESS|PATCH-FAILED|EMPTY)" | awk '{print $1}' | tr '\n' ' ')
  echo "| $n | $P | ${res:-?} |"
  echo "$res" | grep -q KILLED || rc=1
done
exit $rc
