#!/bin/bash
# selftest/eval_seed.sh <dir containing patch.diff and demo.py> [checks...]
# Confirms a seeded change on a scratch copy of /repo: demo passes without / fails with the change, baseline + full tests still pass,
# then runs the given checks (default: all registered) against the changed copy and reports KILLED / SURVIVED per check.
set -u
SEED="$(realpath "$1")"; shift
VERIF="$(cd "$(dirname "$0")/.." && pwd)"
CHECKS="$*"; [ -z "$CHECKS" ] && CHECKS=$(/venv/bin/python -c "import json;print(' '.join(c['property_id'] for c in json.load(open('$VERIF/MANIFEST.json'))['checks']))")
W="$(mktemp -d /tmp/evalseed.XXXXXX)"; trap 'rm -rf "$W"' EXIT
rsync -a --exclude .git --exclude .coverage --exclude coverage.xml --exclude _seed /repo/ "$W/repo/"
( cd "$W/repo" && OMP_NUM_THREADS=1 OPENBLAS_NUM_THREADS=1 PYTHONPATH="$W/repo" PYTHONDONTWRITEBYTECODE=1 timeout 1800 /venv/bin/python "$SEED/demo.py" >"$W/demo_clean.log" 2>&1 ); echo "demo on unchanged tree: exit $? (want 0)"
( cd "$W/repo" && patch -p1 --no-backup-if-mismatch -s < "$SEED/patch.diff" ) || { echo "PATCH-FAILED"; exit 3; }
( cd "$W/repo" && OMP_NUM_THREADS=1 OPENBLAS_NUM_THREADS=1 PYTHONPATH="$W/repo" PYTHONDONTWRITEBYTECODE=1 timeout 1800 /venv/bin/python "$SEED/demo.py" >"$W/demo_patched.log" 2>&1 ); echo "demo on changed tree:   exit $? (want 1): $(tail -2 "$W/demo_patched.log" | tr '\n' ' ' | cut -c1-200)"
BASELINE_TIMEOUT=60 timeout 600 "$VERIF/selftest/baseline.py" "$W/repo" | head -3
echo "full suite from tests/: $(timeout 900 "$VERIF/selftest/fulltests.sh" "$W/repo" | tail -3 | tr '\n' ' ' | cut -c1-250)"
for P in $CHECKS; do
  out="$(cd "$VERIF" && VERIF_REPO="$W/repo" VERIF_NO_EVIDENCE=1 VERIF_CALL_TIMEOUT=${VERIF_CALL_TIMEOUT:-120} timeout 2400 ./check "$P" "${TIER:-quick}" 2>&1)"; rc=$?
  case $rc in
    1) echo "KILLED   $P  $(echo "$out" | grep -m1 '^violation' | cut -c1-260)";;
    0) echo "SURVIVED $P";;
    *) echo "HARNESS-ERROR($rc) $P $(echo "$out" | grep -m2 -E 'HARNESS|Error' | tr '\n' ' ' | cut -c1-300)";;
  esac
done
